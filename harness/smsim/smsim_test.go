package tmstate_test

import (
	"fmt"
	"sort"
	"strings"
	"testing"

	"github.com/gordian-engine/gordian/internal/zzverif/vk"
	"pgregory.net/rapid"
)

// Three checks on the same interpreter (one real tmstate.StateMachine per case,
// harness plays mirror, driver, strategy, signer, timer, stores):
//   TestVerifC08RoundRules      - reference model of the round rules + trace invariants
//   TestVerifC02NoDoubleSign    - signer / action store / emission history incl. restarts
//   TestVerifC12TimerDiscipline - harness round timer vs the model's step

type smWeights struct {
	kinds   []string
	weights []int
}

func smOpWeights(mode string) smWeights {
	w := map[string]int{
		"-":   1, // no-op: what shrinking turns an op into
		"any": 24, "adv": 8, "ent": 5, "view": 10, "ans": 10, "fin": 4, "fire": 6, "hc": 2, "firec": 1,
		"prop": 3, "bd": 2, "time": 2,
		"nph": 8, "nv": 16, "nq": 8, "nround": 5,
	}
	switch mode {
	case "C02":
		w["restart"] = 5
		w["prop"] = 6
		w["ans"] = 14
		w["time"] = 1
	case "C12":
		w["fire"] = 10
		w["firec"] = 5
		w["nv"] = 18
		w["hc"] = 3
	}
	var sw smWeights
	keys := make([]string, 0, len(w))
	for k := range w {
		keys = append(keys, k)
	}
	sort.Strings(keys)
	for _, k := range keys {
		sw.kinds = append(sw.kinds, k)
		sw.weights = append(sw.weights, w[k])
	}
	return sw
}

// smUni draws a (nearly) uniform value in [0,n) from fair coin flips. rapid's
// integer generators are biased towards small values, which would starve most
// op kinds; coin flips still shrink towards 0.
func smUni(t *rapid.T, n int) int {
	nb := 2
	for (1 << uint(nb-2)) < n {
		nb++
	}
	v := 0
	for i := 0; i < nb; i++ {
		if rapid.Bool().Draw(t, "b") {
			v |= 1 << uint(i)
		}
	}
	return v % n
}

func smOpGen(mode string) *rapid.Generator[smOp] {
	sw := smOpWeights(mode)
	total := 0
	for _, x := range sw.weights {
		total += x
	}
	return rapid.Custom(func(t *rapid.T) smOp {
		x := smUni(t, total)
		k := 0
		for x >= sw.weights[k] {
			x -= sw.weights[k]
			k++
		}
		op := smOp{K: sw.kinds[k]}
		switch op.K {
		case "any", "prop", "bd", "nph", "nq", "adv", "nround":
			op.A = smUni(t, 6)
			op.B = smUni(t, 6)
		case "ans", "time":
			op.A = smUni(t, 5)
		case "nv":
			op.A = smUni(t, 6)
			op.B = smUni(t, 4)
			op.C = smUni(t, smMaxVals)
		}
		return op
	})
}

func smGenCase(rt *rapid.T, mode string) smCase {
	var c smCase
	c.Cfg = smCfg{
		N:       1 + smUni(rt, smMaxVals),
		Pow:     smUni(rt, 6),
		ValMode: smUni(rt, 4),
		InitH:   1 + smUni(rt, 3),
	}
	if smUni(rt, 10) == 0 {
		c.Cfg.Follower = true
	}
	// rapid's slices average about twice their minimum length: the minimum is
	// itself drawn (8..48, shrinks to 8) so that long histories are common.
	minLen := 8 + 8*smUni(rt, 6)
	c.Ops = rapid.SliceOfN(smOpGen(mode), minLen, 160).Draw(rt, "ops")
	return c
}

var smOuterT *testing.T

func smRunCase(t vk.TB, st *vk.Stats, c smCase, mode string) {
	if st.WantSample() {
		st.Sample(c)
	}
	st.WAL(c)
	res := runSim(smOuterT, st, c, mode)

	labels := res.labels
	nontrivial := false
	switch mode {
	case "C08":
		order := false
		for _, l := range res.labels {
			switch l {
			case "votes-while-awaiting-proposal", "finalization-before-commit-wait-elapsed", "jump-ahead", "jump-ahead-with-pending-strategy-call",
				"catchup", "answer-after-round-change", "height-committed-signal", "commit-quorum-without-header", "entered-next-round-view", "entered-committing-view":
				order = true
			}
		}
		nontrivial = res.entrances >= 2 && order
	case "C02":
		for _, l := range res.labels {
			switch l {
			case "answer-after-round-change", "proposal-after-round-change", "restart-in-round-with-recorded-vote", "restart-in-round-with-recorded-proposal":
				nontrivial = true
			}
		}
	case "C12":
		nontrivial = res.timerKinds >= 2 && res.timerFired >= 1 && res.timerCancelled >= 1
	}
	switch {
	case res.entrances >= 4:
		labels = append(labels, "entrances>=4")
	case res.entrances >= 2:
		labels = append(labels, "entrances>=2")
	}
	if res.heights >= 3 {
		labels = append(labels, "heights>=3")
	} else if res.heights == 2 {
		labels = append(labels, "heights=2")
	}
	if res.resign > 0 {
		labels = append(labels, "identical-resign")
	}
	for k, v := range res.skips {
		if strings.HasPrefix(k, "excluded:") {
			continue
		}
		st.LabelN("skipped:"+k, int64(v))
	}
	st.LabelN("ops-run", int64(res.opsRun))
	st.Case(nontrivial, vk.FP(c), labels...)
	if vk.Replaying() {
		t.Logf("replay: entrances=%d heights=%d ops-run=%d labels=%v skips=%v\n%s", res.entrances, res.heights, res.opsRun, labels, res.skips, res.tail)
	}
	if res.fail != nil {
		st.Fail(t, c, res.fail.finding, res.fail.clause, "[%s] %s\n--- last events ---\n%s", res.fail.prop, res.fail.detail, res.tail)
	}
}

func smTest(t *testing.T, prop, name, mode, rule string) {
	smOuterT = t
	smUniverse() // keys are generated outside any bubble
	st := vk.NewStats(prop, name, rule)
	defer st.Flush()
	var c smCase
	if ok, err := vk.LoadReplay(prop, name, &c); err != nil {
		t.Fatal(err)
	} else if ok {
		smTrace = true
		smRunCase(t, st, c, mode)
		return
	} else if vk.Replaying() {
		t.Skip("replay file is for another test")
	}
	rapid.Check(t, func(rt *rapid.T) {
		c := smGenCase(rt, mode)
		smRunCase(rt, st, c, mode)
	})
}

const smRuleCommon = "case = configuration (1-6 validators, 6 power profiles, 4 validator-change modes, initial height 1-3, follower) + 1-120 ops interpreted against one real StateMachine in a synctest bubble (harness mirror ported from the kernel's three-view logic, harness strategy/driver/timer/signer/stores); distinct = distinct (cfg, op list) fingerprints; "

func TestVerifC08RoundRules(t *testing.T) {
	smTest(t, "C08", "TestVerifC08RoundRules", "C08", smRuleCommon+
		"non-trivial = at least two round entrances and an event order outside the shapes of the existing tests (votes shown while awaiting a proposal, finalization before commit-wait elapse, jump-ahead, catch-up header, strategy answer after a round change, HeightCommitted signal, commit quorum before the header, entrance into the next-round or committing view)")
}

func TestVerifC02NoDoubleSign(t *testing.T) {
	smTest(t, "C02", "TestVerifC02NoDoubleSign", "C02", smRuleCommon+
		"ops additionally contain restarts on the same stores; non-trivial = a strategy answer or proposal arrives after a round change, or a restart happens in a round in which an action had been recorded")
}

func TestVerifC12TimerDiscipline(t *testing.T) {
	smTest(t, "C12", "TestVerifC12TimerDiscipline", "C12", smRuleCommon+
		"non-trivial = at least two timer kinds were started and at least one timer fired and one was cancelled")
}

var _ = fmt.Sprintf
