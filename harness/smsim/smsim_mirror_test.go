package tmstate_test

// Harness mirror ("mm"): a port of the parts of tmi.Kernel / kState /
// stateMachineViewManager that decide what a state machine can be shown:
// committing, voting and next-round views, the view shifts, FindView for round
// entrances, the Output()/MarkSent() protocol and the HeightCommitted signal.
// Network input is reduced to "validator p votes for target t" and "proposal k
// becomes visible", so everything the machine is shown is something the real
// mirror would show for some honest network history.

import (
	"fmt"
	"sort"

	"github.com/gordian-engine/gordian/gcrypto"
	"github.com/gordian-engine/gordian/internal/zzverif/vk"
	"github.com/gordian-engine/gordian/tm/tmconsensus"
	"github.com/gordian-engine/gordian/tm/tmengine/internal/tmeil"
)

type mmView struct {
	H                    uint64
	R                    uint32
	Version              uint32
	PHs                  []*candidate
	Prevotes, Precommits map[string]uint64 // target -> mask of validator positions
	PrevCommit           tmconsensus.CommitProof
}

func newMMView(h uint64, r uint32, pc tmconsensus.CommitProof) *mmView {
	return &mmView{H: h, R: r, Prevotes: map[string]uint64{}, Precommits: map[string]uint64{}, PrevCommit: pc}
}

func (v *mmView) clone() *mmView {
	c := &mmView{H: v.H, R: v.R, Version: v.Version, PrevCommit: v.PrevCommit,
		PHs: append([]*candidate(nil), v.PHs...), Prevotes: map[string]uint64{}, Precommits: map[string]uint64{}}
	for k, m := range v.Prevotes {
		c.Prevotes[k] = m
	}
	for k, m := range v.Precommits {
		c.Precommits[k] = m
	}
	return c
}

func (v *mmView) resetSameHeight() {
	v.PHs = nil
	v.Prevotes = map[string]uint64{}
	v.Precommits = map[string]uint64{}
	v.Version = 0
}

func (v *mmView) voted(precommit bool) uint64 {
	m := v.Prevotes
	if precommit {
		m = v.Precommits
	}
	var all uint64
	for _, x := range m {
		all |= x
	}
	return all
}

func (v *mmView) hasPH(hash string) *candidate {
	for _, c := range v.PHs {
		if c.hash == hash {
			return c
		}
	}
	return nil
}

// viewFacts: what a view shows, recomputed independently of VoteSummary.
type viewFacts struct {
	H             uint64
	R             uint32
	Version       uint32
	Total         uint64
	PrevTot       uint64
	PrevBest      uint64 // highest single-target prevote power
	PrevMajTarget bool
	PrecTot       uint64
	PrecBestHash  string
	PrecBest      uint64
	PrecMajTarget bool
	PrecMajNil    bool
	okPH          map[string]bool // acceptable proposal hashes visible
	allPH         map[string]bool
	dataIDs       map[string]bool // data ids of acceptable proposals
	precPow       map[string]uint64
	vsDigest      string
}

func (w *world) facts(v *mmView) viewFacts {
	vi := w.valsAt(v.H)
	f := viewFacts{H: v.H, R: v.R, Version: v.Version, Total: vi.total,
		okPH: map[string]bool{}, allPH: map[string]bool{}, dataIDs: map[string]bool{}, precPow: map[string]uint64{}}
	var union uint64
	for _, m := range v.Prevotes {
		p := vi.power(m)
		union |= m
		if p > f.PrevBest {
			f.PrevBest = p
		}
	}
	f.PrevTot = vi.power(union)
	f.PrevMajTarget = vi.maj(f.PrevBest)
	union = 0
	keys := make([]string, 0, len(v.Precommits))
	for k := range v.Precommits {
		keys = append(keys, k)
	}
	sort.Strings(keys)
	for _, k := range keys {
		m := v.Precommits[k]
		p := vi.power(m)
		union |= m
		f.precPow[k] = p
		if p > f.PrecBest {
			f.PrecBest = p
			f.PrecBestHash = k
		}
	}
	f.PrecTot = vi.power(union)
	f.PrecMajTarget = vi.maj(f.PrecBest)
	f.PrecMajNil = f.PrecMajTarget && f.PrecBestHash == ""
	for _, c := range v.PHs {
		f.allPH[c.hash] = true
		if c.ok {
			f.okPH[c.hash] = true
			f.dataIDs[string(c.ph.Header.DataID)] = true
		}
	}
	return f
}

// ---------------------------------------------------------------------------

type committedRec struct {
	cand  *candidate
	proof tmconsensus.CommitProof
}

type mirror struct {
	w *world

	committing, voting, next *mmView
	store                    map[uint64]committedRec // committed header store

	ownSigs map[string][]byte // kind|h|r|hash -> the machine's own signature, learnt from its actions

	// stateMachineViewManager
	re        *entranceRec
	lastSent  uint32
	jumpAhead *mmView
	outgoing  *mmView

	hcDue []*entranceRec // HeightCommitted channels the real mirror has closed; the harness closes them on the "hc" op
}

func newMirror(w *world) *mirror {
	m := &mirror{w: w, store: map[uint64]committedRec{}, ownSigs: map[string][]byte{}}
	pc := tmconsensus.CommitProof{Proofs: map[string][]gcrypto.SparseSignature{}}
	m.voting = newMMView(w.initH, 0, pc)
	m.voting.Version = 1
	m.next = newMMView(w.initH, 1, pc)
	m.next.Version = 1
	return m
}

// restart models the mirror side of a process restart: views reload from the
// stores (votes kept), the view manager starts empty, future-round votes are lost.
func (m *mirror) restart() {
	m.re = nil
	m.lastSent = 0
	m.jumpAhead = nil
	m.outgoing = nil
	m.hcDue = nil
	m.next.resetSameHeight()
	m.next.Version = 1
}

func (m *mirror) smHR() (uint64, uint32) {
	if m.re == nil {
		return 0, 0
	}
	return m.re.re.H, m.re.re.R
}

const (
	vidVoting = iota
	vidNext
	vidCommitting
)

func (m *mirror) view(id int) *mmView {
	switch id {
	case vidVoting:
		return m.voting
	case vidNext:
		return m.next
	default:
		return m.committing
	}
}

const (
	fvFound = iota
	fvOrphaned
	fvFuture
	fvBeforeCommitting
	fvUnhandled
	fvWrongCommit
)

func (m *mirror) findView(h uint64, r uint32) (*mmView, int, int) {
	if h == m.voting.H {
		vr := m.voting.R
		switch {
		case r == vr:
			return m.voting, vidVoting, fvFound
		case r == vr+1:
			return m.next, vidNext, fvFound
		case r < vr:
			return nil, 0, fvOrphaned
		}
		return nil, 0, fvFuture
	}
	if m.committing != nil && h == m.committing.H {
		cr := m.committing.R
		if r == cr {
			return m.committing, vidCommitting, fvFound
		}
		if r < cr {
			return nil, 0, fvBeforeCommitting
		}
	}
	if m.committing != nil && h < m.committing.H {
		return nil, 0, fvBeforeCommitting
	}
	if h > m.voting.H {
		return nil, 0, fvFuture
	}
	if m.committing != nil && h == m.committing.H {
		return nil, 0, fvWrongCommit // a round beyond the committing round of the committing height
	}
	return nil, 0, fvUnhandled
}

func (m *mirror) markUpdated(id int) {
	switch id {
	case vidCommitting:
		m.committing.Version++
		smh, smr := m.smHR()
		if smh == m.committing.H && smr == m.committing.R {
			m.outgoing = m.committing.clone()
		} else if smh < m.committing.H || (smh == m.committing.H && smr < m.committing.R) {
			m.jumpAhead = m.committing.clone()
		}
	case vidVoting:
		m.voting.Version++
		smh, smr := m.smHR()
		if smh == m.voting.H && smr == m.voting.R {
			m.outgoing = m.voting.clone()
		}
	case vidNext:
		m.next.Version++
	}
}

// wouldOrphan: a voting-round increment now would leave the machine's next
// entrance at this height without a view for a long time (real mirror: "TODO:
// handle view not found", A7, until the height commits). The mirror may run
// ahead freely while an entrance is still unanswered (the machine may simply be
// slow to send it); once the machine lives in round smR the harness keeps the
// mirror within two rounds so that cases do not routinely dead-end.
func (m *mirror) wouldOrphan(smH uint64, smR uint32, have, pending bool) bool {
	if !have || smH != m.voting.H || pending {
		return false
	}
	return m.voting.R+1 > smR+2
}

func (m *mirror) incrementVotingRound() {
	m.voting, m.next = m.next, m.voting
	m.markUpdated(vidVoting)
	m.next.resetSameHeight()
	m.next.R = m.voting.R + 1
	m.markUpdated(vidNext)
}

func (m *mirror) jumpVotingRound() {
	m.incrementVotingRound()
	smh, smr := m.smHR()
	if m.re != nil && smh == m.voting.H && smr == m.voting.R-1 {
		m.jumpAhead = m.voting.clone()
	}
}

func (m *mirror) sparse(v *mmView) map[string][]gcrypto.SparseSignature {
	out := map[string][]gcrypto.SparseSignature{}
	for hash, mask := range v.Precommits {
		if mask == 0 {
			continue
		}
		out[hash] = m.proofFor(true, v, hash, mask).AsSparse().Signatures
	}
	return out
}

func (m *mirror) shiftVotingToCommitting(c *candidate) {
	var hcRe *entranceRec
	if m.re != nil && m.committing != nil && m.re.re.H == m.committing.H {
		hcRe = m.re
	}
	m.committing = m.voting
	m.markUpdated(vidCommitting)

	newH := m.committing.H + 1
	pc := tmconsensus.CommitProof{
		Round:      m.committing.R,
		PubKeyHash: string(m.w.valsAt(m.committing.H).set.PubKeyHash),
		Proofs:     m.sparse(m.committing),
	}
	m.w.committed[m.committing.H] = c
	m.w.commitRnd[m.committing.H] = m.committing.R

	m.voting = newMMView(newH, 0, pc)
	m.markUpdated(vidVoting)
	m.next = newMMView(newH, 1, pc)
	m.markUpdated(vidNext)

	m.store[m.committing.H] = committedRec{cand: c, proof: pc}
	if hcRe != nil && !hcRe.hcClosed {
		dup := false
		for _, e := range m.hcDue {
			dup = dup || e == hcRe
		}
		if !dup {
			m.hcDue = append(m.hcDue, hcRe)
		}
	}
}

// shiftPreview reports what checkVotingPrecommitViewShift would do to v.
const (
	shNone = iota
	shAdvance
	shCommit
)

func (m *mirror) votingShift(v *mmView) (int, *candidate) {
	f := m.w.facts(v)
	vi := m.w.valsAt(v.H)
	if !vi.maj(f.PrecBest) {
		if f.PrecTot == f.Total {
			return shAdvance, nil
		}
		return shNone, nil
	}
	if f.PrecBestHash == "" {
		return shAdvance, nil
	}
	if c := v.hasPH(f.PrecBestHash); c != nil {
		return shCommit, c
	}
	return shNone, nil
}

func (m *mirror) checkVotingPrecommitShift() {
	switch sh, c := m.votingShift(m.voting); sh {
	case shAdvance:
		m.incrementVotingRound()
	case shCommit:
		m.shiftVotingToCommitting(c)
	}
}

// addVote ports addPrevote/addPrecommit for one validator position. smH/smR is
// the machine's latest entrance request (for the lag constraints that keep the
// real mirror itself alive). Returns "" or the reason the vote was not applied.
func (m *mirror) addVote(precommit bool, id int, target string, pos int, smH uint64, smR uint32, haveSM, pending bool) string {
	v := m.view(id)
	if v == nil {
		return "no-view"
	}
	vi := m.w.valsAt(v.H)
	if pos < 0 || pos >= len(vi.idx) {
		return "no-validator"
	}
	bit := uint64(1) << uint(pos)
	if v.voted(precommit)&bit != 0 {
		return "already-voted"
	}
	// Preview on a copy to apply the mirror-survival constraints.
	pv := v.clone()
	if precommit {
		pv.Precommits[target] |= bit
	} else {
		pv.Prevotes[target] |= bit
	}
	pf := m.w.facts(pv)
	switch id {
	case vidVoting:
		if precommit {
			if sh, _ := m.votingShift(pv); sh == shAdvance && m.wouldOrphan(smH, smR, haveSM, pending) {
				return "would-orphan"
			}
		}
	case vidNext:
		tot := pf.PrevTot
		if precommit {
			tot = pf.PrecTot
		}
		if vi.min(tot) {
			if m.wouldOrphan(smH, smR, haveSM, pending) {
				return "would-orphan"
			}
			if precommit && vi.maj(pf.PrecBest) && vk.Excluded("C09-A5") {
				return "mirror-A5" // kernel before d02baf8: "TODO: handle a majority precommit for NextRound"
			}
			if precommit {
				// d02baf8: the round jumped to is then handled like any voting round; it may be left at once.
				if sh, _ := m.votingShift(pv); sh == shAdvance && haveSM && !pending && smH == m.voting.H && m.voting.R+2 > smR+2 {
					return "would-orphan"
				}
			}
		}
	}
	if precommit && target != "" {
		// Safe network: once some round of this height held a > 2/3 precommit certificate for a block,
		// more than 1/3 of the power is honest and locked on it, so no other block of the height can
		// reach > 2/3 precommits (the machine's own possible precommit counted in).
		if have, ok := m.w.certified[v.H]; ok && have != target {
			mask := pv.Precommits[target]
			if vi.self >= 0 && !m.w.cfg.Follower && pv.voted(true)&(1<<uint(vi.self)) == 0 {
				mask |= 1 << uint(vi.self)
			}
			if vi.maj(vi.power(mask)) {
				return "unsafe-second-certificate"
			}
		}
	}
	if precommit {
		v.Precommits[target] |= bit
	} else {
		v.Prevotes[target] |= bit
	}
	if precommit {
		m.noteCertificate(v)
	}
	m.markUpdated(id)
	switch id {
	case vidVoting:
		if precommit {
			m.checkVotingPrecommitShift()
		}
	case vidNext:
		f := m.w.facts(m.next)
		tot := f.PrevTot
		if precommit {
			tot = f.PrecTot
		}
		if vi.min(tot) {
			m.jumpVotingRound()
			if precommit && !vk.Excluded("C09-A5") {
				m.checkVotingPrecommitShift()
			}
		}
	}
	return ""
}

// noteCertificate records the block of a > 2/3 precommit certificate. A second certificate for a
// different block at the same height can only exist with >= 1/3 faulty voting power.
func (m *mirror) noteCertificate(v *mmView) {
	f := m.w.facts(v)
	if !f.PrecMajTarget || f.PrecBestHash == "" {
		return
	}
	if have, ok := m.w.certified[v.H]; !ok {
		m.w.certified[v.H] = f.PrecBestHash
		m.w.certRound[v.H] = v.R
	} else if have != f.PrecBestHash {
		m.w.twoBlocks = true
	}
}

// addPH ports addProposedHeader.
func (m *mirror) addPH(c *candidate) string {
	v, id, st := m.findView(c.ph.Header.Height, c.ph.Round)
	if st != fvFound {
		return "no-view"
	}
	for _, have := range v.PHs {
		if string(have.ph.Signature) == string(c.ph.Signature) {
			return "duplicate"
		}
	}
	v.PHs = append(v.PHs, c)
	m.markUpdated(id)
	if id == vidVoting {
		if _, ok := m.voting.Precommits[c.hash]; ok {
			m.checkVotingPrecommitShift()
		}
	}
	return ""
}

// ownAction ports handleStateMachineAction for the entrance the mirror knows.
func (m *mirror) ownAction(e *entranceRec, act tmeil.StateMachineRoundAction, smH uint64, smR uint32) string {
	if len(act.PH.Header.Hash) > 0 {
		c := &candidate{ph: act.PH, hash: string(act.PH.Header.Hash), ok: true, own: true}
		key := hrKey{act.PH.Header.Height, act.PH.Round}
		known := false
		for _, k := range m.w.cands[key] {
			known = known || k.hash == c.hash
		}
		if !known {
			m.w.cands[key] = append(m.w.cands[key], c)
		}
		return m.addPH(c)
	}
	if m.re != e {
		return "stale-entrance"
	}
	h, r := m.smHR()
	v, id, st := m.findView(h, r)
	if st != fvFound || (id != vidVoting && id != vidCommitting) {
		return "dropped"
	}
	vi := m.w.valsAt(h)
	if vi.self < 0 {
		return "not-validator"
	}
	precommit := len(act.Precommit.Sig) > 0
	ss := act.Prevote
	if precommit {
		ss = act.Precommit
	}
	m.ownSigs[fmt.Sprintf("%v|%d|%d|%s", precommit, h, r, ss.TargetHash)] = ss.Sig
	bit := uint64(1) << uint(vi.self)
	if precommit {
		v.Precommits[ss.TargetHash] |= bit
	} else {
		v.Prevotes[ss.TargetHash] |= bit
	}
	m.markUpdated(id)
	if precommit {
		m.noteCertificate(v)
	}
	if precommit && id == vidVoting {
		// The machine's own precommit can complete a quorum; the same lag
		// constraint applies (the machine is in this round, so never orphaned).
		m.checkVotingPrecommitShift()
	}
	return ""
}

func (m *mirror) proofFor(precommit bool, v *mmView, hash string, mask uint64) gcrypto.CommonMessageSignatureProof {
	own := m.ownSigs[fmt.Sprintf("%v|%d|%d|%s", precommit, v.H, v.R, hash)]
	return m.w.proof(precommit, v.H, v.R, hash, mask, own)
}

// materialize builds the real VersionedRoundView for a (snapshot of a) view.
func (m *mirror) materialize(v *mmView) tmconsensus.VersionedRoundView {
	vi := m.w.valsAt(v.H)
	vrv := tmconsensus.VersionedRoundView{
		RoundView: tmconsensus.RoundView{
			Height: v.H, Round: v.R,
			ValidatorSet:    vi.set,
			PrevCommitProof: v.PrevCommit.Clone(),
			PrevoteProofs:   map[string]gcrypto.CommonMessageSignatureProof{},
			PrecommitProofs: map[string]gcrypto.CommonMessageSignatureProof{},
			VoteSummary:     tmconsensus.NewVoteSummary(),
		},
		Version:          v.Version,
		PrevoteVersion:   v.Version,
		PrecommitVersion: v.Version,
	}
	if vrv.PrevCommitProof.Proofs == nil {
		vrv.PrevCommitProof.Proofs = map[string][]gcrypto.SparseSignature{}
	}
	for _, c := range v.PHs {
		vrv.ProposedHeaders = append(vrv.ProposedHeaders, c.ph)
	}
	for hash, mask := range v.Prevotes {
		if mask != 0 {
			vrv.PrevoteProofs[hash] = m.proofFor(false, v, hash, mask)
		}
	}
	for hash, mask := range v.Precommits {
		if mask != 0 {
			vrv.PrecommitProofs[hash] = m.proofFor(true, v, hash, mask)
		}
	}
	vrv.VoteSummary.SetAvailablePower(vi.set.Validators)
	vrv.VoteSummary.SetVotePowers(vi.set.Validators, vrv.PrevoteProofs, vrv.PrecommitProofs)
	return vrv
}

// ---------------------------------------------------------------------------
// round entrance (handleStateMachineRoundEntrance)

type entranceAnswer struct {
	status int
	view   *mmView // snapshot answered with (status found)
	ch     *committedRec
}

func (m *mirror) previewEntrance(h uint64, r uint32) entranceAnswer {
	v, _, st := m.findView(h, r)
	switch st {
	case fvFound:
		return entranceAnswer{status: st, view: v.clone()}
	case fvWrongCommit:
		// Real mirror: "TODO: handle view not found (status=ViewWrongCommit)" while C03-A7b is open;
		// with the repair the height is decided and the machine gets the committed header.
		if vk.Excluded(fidA7b) {
			return entranceAnswer{status: fvWrongCommit}
		}
		fallthrough
	case fvBeforeCommitting:
		st = fvBeforeCommitting
		rec, ok := m.store[h]
		if !ok {
			return entranceAnswer{status: fvUnhandled}
		}
		return entranceAnswer{status: st, ch: &rec}
	}
	return entranceAnswer{status: st}
}

func (m *mirror) acceptEntrance(e *entranceRec, a entranceAnswer) {
	m.re = e
	m.lastSent = 0
	m.jumpAhead = nil
	if a.status == fvFound {
		m.lastSent = a.view.Version
	}
}

// ---------------------------------------------------------------------------
// Output()/MarkSent()

type mmOutput struct {
	ok      bool
	vrv     *mmView
	jump    *mmView
	sentVer uint32
}

func (m *mirror) output() mmOutput {
	if m.re == nil {
		return mmOutput{}
	}
	h, r := m.smHR()
	if m.outgoing != nil && m.outgoing.H == h && m.outgoing.R == r {
		var o mmOutput
		if m.jumpAhead != nil {
			o.jump = m.jumpAhead
			o.sentVer = m.lastSent
		}
		if m.outgoing.Version > m.lastSent {
			o.vrv = m.outgoing
			o.sentVer = m.outgoing.Version
		}
		if o.sentVer > 0 {
			o.ok = true
			return o
		}
	}
	if m.jumpAhead != nil && m.jumpAhead.H == h && m.jumpAhead.R > r {
		return mmOutput{ok: true, jump: m.jumpAhead, sentVer: m.lastSent}
	}
	return mmOutput{}
}

func (m *mirror) markSent(o mmOutput) {
	m.jumpAhead = nil
	m.lastSent = o.sentVer
}

// pos describes the mirror position (trace only).
func (m *mirror) pos() string {
	c := "-"
	if m.committing != nil {
		c = fmt.Sprintf("%d/%d", m.committing.H, m.committing.R)
	}
	return fmt.Sprintf("committing %s voting %d/%d", c, m.voting.H, m.voting.R)
}
