package tmp2ptest_test

// C20 (in-memory part): on a line of DaisyChainConnections a node's handler is
// invoked with message m only if every node strictly between the publisher and
// that node returned FeedbackAccepted for m before.
//
// Every case runs inside a testing/synctest bubble: synctest.Wait() is an exact
// quiescence point (all daisy chain goroutines durably blocked), so "m was not
// relayed" is decided without any wall-clock wait.

import (
	"context"
	"fmt"
	"sort"
	"strings"
	"testing"
	"testing/synctest"
	"time"

	"github.com/gordian-engine/gordian/internal/zzverif/c20msg"
	"github.com/gordian-engine/gordian/internal/zzverif/vk"
	"github.com/gordian-engine/gordian/tm/tmconsensus"
	"github.com/gordian-engine/gordian/tm/tmp2p/tmp2ptest"
	"pgregory.net/rapid"
)

const c20dF1 = "C20-F1" // daisy chain relays without consulting anybody when no handler is installed

type c20dHSpec struct {
	Mode uint8 `json:"mode"` // 0 = nil handler, 1 = per-message verdict table, 2 = constant verdict F
	F    uint8 `json:"f"`
}

type c20dOp struct {
	Op   string      `json:"op"`             // pub | seth | wait | disc
	Node int         `json:"node"`           // publisher / target node, mod n
	Spec c20msg.Spec `json:"spec,omitempty"` // pub: content
	V    []int       `json:"v,omitempty"`    // pub: verdict of a table handler at node j is V[j mod len(V)]
	H    c20dHSpec   `json:"h,omitempty"`    // seth
}

type c20dCase struct {
	N   int      `json:"n"` // nodes on the line (3..5)
	Ops []c20dOp `json:"ops"`
}

func c20dVerdictGen() *rapid.Generator[uint8] {
	return rapid.OneOf(
		rapid.Just(c20msg.Accepted), rapid.Just(c20msg.Accepted), rapid.Just(c20msg.Accepted),
		rapid.Just(uint8(2)), rapid.Just(uint8(3)), rapid.Just(uint8(4)), rapid.Just(uint8(0)),
		rapid.Uint8(),
	)
}

func c20dHSpecGen() *rapid.Generator[c20dHSpec] {
	return rapid.Custom(func(t *rapid.T) c20dHSpec {
		switch rapid.IntRange(0, 9).Draw(t, "hmode") {
		case 0, 1:
			return c20dHSpec{Mode: 0}
		case 2, 3, 4:
			return c20dHSpec{Mode: 2, F: c20dVerdictGen().Draw(t, "hf")}
		default:
			return c20dHSpec{Mode: 1}
		}
	})
}

func c20dGen(t *rapid.T) c20dCase {
	n := rapid.SampledFrom([]int{3, 3, 3, 4, 5}).Draw(t, "n")
	c := c20dCase{N: n}
	// initial handlers: ops like any other, so they shrink like any other
	for i := 0; i < n; i++ {
		h := c20dHSpecGen().Draw(t, "init")
		if h.Mode == 0 && i > 0 && i < n-1 && rapid.IntRange(0, 1).Draw(t, "initnil") == 0 {
			h = c20dHSpec{Mode: 1} // relay nodes start without handler in 1 case of 10 only
		}
		c.Ops = append(c.Ops, c20dOp{Op: "seth", Node: i, H: h})
	}
	k := rapid.IntRange(1, 40).Draw(t, "nops")
	for i := 0; i < k; i++ {
		switch w := rapid.IntRange(0, 99).Draw(t, "opw"); {
		case w < 52:
			node := 0
			switch pw := rapid.IntRange(0, 9).Draw(t, "pubnode"); {
			case pw < 6:
			case pw < 8:
				node = n - 1
			default:
				node = rapid.IntRange(0, n-1).Draw(t, "pubany")
			}
			c.Ops = append(c.Ops, c20dOp{Op: "pub", Node: node,
				Spec: c20msg.Spec{
					Kind:  uint8(rapid.IntRange(0, 2).Draw(t, "kind")),
					Round: uint32(rapid.IntRange(0, 3).Draw(t, "round")),
					Salt:  rapid.Uint8().Draw(t, "salt"),
					NSig:  uint8(rapid.IntRange(0, 3).Draw(t, "nsig")),
				},
				V: c20dInts(rapid.SliceOfN(c20dVerdictGen(), 1, 3).Draw(t, "v"))})
		case w < 78:
			node := rapid.IntRange(0, n-1).Draw(t, "hnode")
			if rapid.IntRange(0, 9).Draw(t, "hinterior") < 7 {
				node = 1 + node%(n-2)
			}
			c.Ops = append(c.Ops, c20dOp{Op: "seth", Node: node, H: c20dHSpecGen().Draw(t, "h")})
		case w < 96:
			c.Ops = append(c.Ops, c20dOp{Op: "wait"})
		default:
			c.Ops = append(c.Ops, c20dOp{Op: "disc", Node: rapid.IntRange(0, n-1).Draw(t, "dnode")})
		}
	}
	return c
}

func c20dInts(b []uint8) []int {
	r := make([]int, len(b))
	for i, x := range b {
		r[i] = int(x)
	}
	return r
}

func c20dNorm(c *c20dCase) {
	if c.N < 3 {
		c.N = 3
	}
	if c.N > 6 {
		c.N = 6
	}
	for i := range c.Ops {
		n := c.Ops[i].Node % c.N
		if n < 0 {
			n += c.N
		}
		c.Ops[i].Node = n
		if c.Ops[i].Op == "pub" && len(c.Ops[i].V) == 0 {
			c.Ops[i].V = []int{int(c20msg.Accepted)}
		}
	}
}

// verdict the model predicts for message op at node j under handler spec h
// (ok=false: no handler).
func c20dModelVerdict(h c20dHSpec, op c20dOp, j int) (f uint8, ok bool) {
	switch h.Mode % 3 {
	case 0:
		return 0, false
	case 1:
		return uint8(op.V[j%len(op.V)]), true
	default:
		return h.F, true
	}
}

// c20dClassify is a sequential model pre-pass (ignores in-flight races); it
// only feeds the statistics, never the oracle.
func c20dClassify(c c20dCase, exclude bool) (nontrivial bool, labels []string) {
	n := c.N
	hs := make([]c20dHSpec, n)
	disc := make([]bool, n)
	interior := func(j int) bool { return j > 0 && j < n-1 }
	sawBlocked, blockedThenRelayed := false, false
	pubs, swapBetween, sethSincePub, inflightSwap := 0, false, false, false
	sincePub := false // a pub happened since the last wait
	nNilRelay := 0
	for _, op := range c.Ops {
		switch op.Op {
		case "seth":
			if disc[op.Node] || (exclude && interior(op.Node) && op.H.Mode%3 == 0) {
				continue // the interpreter skips these
			}
			hs[op.Node] = op.H
			if pubs > 0 {
				sethSincePub = true
			}
			if sincePub {
				inflightSwap = true
			}
		case "disc":
			if exclude && interior(op.Node) {
				continue
			}
			disc[op.Node] = true
			hs[op.Node] = c20dHSpec{}
		case "wait":
			sincePub = false
		case "pub":
			if exclude {
				skip := false
				for j := 0; j < n; j++ {
					if interior(j) && j != op.Node && hs[j].Mode%3 == 0 {
						skip = true
					}
				}
				if skip {
					continue
				}
			}
			if pubs > 0 && sethSincePub {
				swapBetween = true
			}
			pubs++
			sethSincePub = false
			sincePub = true
			blocked, relayed := false, false
			chain := func(nodes []int) {
				if len(nodes) == 0 {
					return
				}
				all := true
				for _, j := range nodes {
					f, ok := c20dModelVerdict(hs[j], op, j)
					if !ok {
						nNilRelay++
					}
					if !ok || f != c20msg.Accepted {
						all = false
					}
				}
				if all {
					relayed = true
				} else {
					blocked = true
				}
			}
			var right, left []int
			for j := op.Node + 1; j <= n-2; j++ { // relays needed to reach the right end
				right = append(right, j)
			}
			for j := op.Node - 1; j >= 1; j-- { // relays needed to reach the left end
				left = append(left, j)
			}
			chain(right)
			chain(left)
			if blocked {
				sawBlocked = true
			}
			if relayed {
				if sawBlocked {
					blockedThenRelayed = true
				}
			}
		}
	}
	labels = append(labels, fmt.Sprintf("n=%d", n))
	if blockedThenRelayed {
		labels = append(labels, "blocked-then-relayed")
	}
	if swapBetween {
		labels = append(labels, "swap-between-pubs")
	}
	if inflightSwap {
		labels = append(labels, "swap-with-messages-in-flight")
	}
	if nNilRelay > 0 {
		labels = append(labels, "pub-through-nil-handler-node")
	}
	if pubs == 0 {
		labels = append(labels, "no-pub")
	}
	return blockedThenRelayed || swapBetween, labels
}

type c20dFailure struct {
	finding, clause, detail string
}

// c20dExec interprets the case on a real daisy chain inside the current bubble.
func c20dExec(t *testing.T, st *vk.Stats, c c20dCase) *c20dFailure {
	n := c.N
	ctx, cancel := context.WithCancel(context.Background())
	net := tmp2ptest.NewDaisyChainNetwork(t, ctx)
	defer func() {
		cancel()
		net.Wait()
	}()
	conns := make([]*tmp2ptest.DaisyChainConnection, n)
	for i := range conns {
		conn, err := net.Connect(ctx)
		if err != nil {
			return &c20dFailure{clause: "harness", detail: "connect: " + err.Error()}
		}
		conns[i] = conn
	}

	log := new(c20msg.Log)
	// id -> pub op for every pub op of the case; read-only while the chain runs
	// (handlers look their verdict up from other goroutines)
	allPubs := map[uint64]c20dOp{}
	for i, op := range c.Ops {
		if op.Op == "pub" {
			allPubs[uint64(i+1)] = op
		}
	}
	pubOf := map[uint64]c20dOp{}          // id -> pub op, published so far (interpreter goroutine only)
	nilWhile := map[uint64]map[int]bool{} // id -> nodes that were without handler while id may have been in flight
	var inflight []uint64                 // published since the last quiescence point
	cur := make([]c20dHSpec, n)           // model of the installed handler per node (nil initially)
	disc := make([]bool, n)
	inst := 0
	// instOf[j]: instance number of the handler installed at node j, or -1 for none.
	// floor[id][j]: lowest handler instance of node j that may legitimately judge
	// message id: the one installed when id was published (SetConsensusHandler had
	// returned, so the node uses it or a later one), or any later one.
	instOf := make([]int, n)
	for j := range instOf {
		instOf[j] = -1
	}
	floor := map[uint64][]int{}
	exclude := vk.Excluded(c20dF1)
	interior := func(j int) bool { return j > 0 && j < n-1 }

	// check evaluates the oracle over the whole invocation log. Records are
	// visited in (message id, node) order and printed sorted, so the same
	// violation yields the same text whatever the goroutine schedule was.
	check := func(when string, final bool) *c20dFailure {
		recs := log.Snapshot()
		type key struct {
			node int
			id   uint64
		}
		acceptedAt := map[key]int{} // earliest log index of an Accepted record
		consulted := map[key]bool{}
		for i, r := range recs {
			k := key{r.Node, r.ID}
			consulted[k] = true
			if r.F == c20msg.Accepted && floor[r.ID] != nil && r.Handler >= floor[r.ID][r.Node] {
				if _, ok := acceptedAt[k]; !ok {
					acceptedAt[k] = i
				}
			}
		}
		order := make([]int, len(recs))
		for i := range order {
			order[i] = i
		}
		sort.SliceStable(order, func(a, b int) bool {
			ra, rb := recs[order[a]], recs[order[b]]
			if ra.ID != rb.ID {
				return ra.ID < rb.ID
			}
			return ra.Node < rb.Node
		})
		sorted := func() string {
			var sb strings.Builder
			for _, i := range order {
				r := recs[i]
				fmt.Fprintf(&sb, " msg%d@node%d:h%d=%d", r.ID, r.Node, r.Handler, r.F)
			}
			return sb.String()
		}
		for _, i := range order {
			r := recs[i]
			op, ok := pubOf[r.ID]
			if !ok {
				return &c20dFailure{clause: "unknown-message", detail: fmt.Sprintf("%s: node %d handled message id %d that nobody published", when, r.Node, r.ID)}
			}
			if r.Kind != op.Spec.Kind%c20msg.NKinds {
				return &c20dFailure{clause: "handler-kind", detail: fmt.Sprintf("%s: message %d published as %s was handed to the %s method of node %d",
					when, r.ID, c20msg.KindName(op.Spec.Kind), c20msg.KindName(r.Kind), r.Node)}
			}
			p := op.Node
			if r.Node == p {
				if final {
					st.Label("echo-to-publisher")
				}
				continue
			}
			step := 1
			if r.Node < p {
				step = -1
			}
			for j := p + step; j != r.Node; j += step {
				at, ok := acceptedAt[key{j, r.ID}]
				if ok && at < i {
					continue
				}
				f := &c20dFailure{clause: "relay-only-if-accepted"}
				if !consulted[key{j, r.ID}] && nilWhile[r.ID][j] {
					f.clause = "relay-without-handler"
					f.finding = c20dF1
				}
				f.detail = fmt.Sprintf("%s: node %d handled message %d (%s, published by node %d) although relay node %d had not returned Accepted for it from a handler installed at or after publish time (handler of node %d consulted=%v, node %d without handler while the message was in flight=%v); invocations (msg@node:handler=verdict):%s",
					when, r.Node, r.ID, c20msg.KindName(r.Kind), p, j, j, consulted[key{j, r.ID}], j, nilWhile[r.ID][j], sorted())
				return f
			}
			if final && (r.Node-p > 1 || p-r.Node > 1) {
				st.Label("delivered-via-relay")
			}
			if final && interior(r.Node) && r.Node != p && r.F != c20msg.Accepted {
				st.Label("refused-at-relay-node")
			}
		}
		return nil
	}

	markNil := func(j int) {
		for _, id := range inflight {
			nilWhile[id][j] = true
		}
	}

	for i, op := range c.Ops {
		switch op.Op {
		case "pub":
			if exclude {
				skip := false
				for j := 0; j < n; j++ {
					if interior(j) && j != op.Node && cur[j].Mode%3 == 0 {
						skip = true
					}
				}
				if skip {
					st.Excluded(c20dF1)
					continue
				}
			}
			id := uint64(i + 1)
			pubOf[id] = op
			nilWhile[id] = map[int]bool{}
			for j := 0; j < n; j++ {
				if cur[j].Mode%3 == 0 {
					nilWhile[id][j] = true
				}
			}
			inflight = append(inflight, id)
			fl := make([]int, n)
			for j := range fl {
				fl[j] = instOf[j]
				if fl[j] < 0 {
					fl[j] = inst // only a handler installed from now on
				}
			}
			floor[id] = fl
			// fake-time guard: fires only if every goroutine of the bubble is durably blocked
			tctx, tcancel := context.WithTimeout(ctx, time.Minute)
			sent := c20msg.Send(conns[op.Node].ConsensusBroadcaster(), id, op.Spec, tctx.Done())
			tcancel()
			if !sent {
				return &c20dFailure{clause: "wedged", detail: fmt.Sprintf("op %d: outgoing channel of node %d not read within a (virtual) minute", i, op.Node)}
			}
		case "seth":
			if disc[op.Node] {
				st.Label("skipped:seth-after-disconnect")
				continue // documented precondition (the connection panics: "SetConsensusHandler called after Disconnect")
			}
			if op.H.Mode%3 == 0 {
				if exclude && interior(op.Node) {
					st.Excluded(c20dF1)
					continue
				}
				conns[op.Node].SetConsensusHandler(ctx, nil)
				instOf[op.Node] = -1
				cur[op.Node] = op.H
				markNil(op.Node)
				continue
			}
			node, spec := op.Node, op.H
			h := &c20msg.Handler{Node: node, Inst: inst, Log: log, Verdict: func(_ uint8, id uint64) uint8 {
				if spec.Mode%3 == 2 {
					return spec.F
				}
				po, ok := allPubs[id]
				if !ok {
					return 0
				}
				return uint8(po.V[node%len(po.V)])
			}}
			var ch tmconsensus.ConsensusHandler = h
			conns[node].SetConsensusHandler(ctx, ch)
			instOf[node] = inst
			inst++
			cur[node] = spec
		case "disc":
			if exclude && interior(op.Node) {
				st.Excluded(c20dF1)
				continue
			}
			conns[op.Node].Disconnect()
			tctx, tcancel := context.WithTimeout(ctx, time.Minute)
			select {
			case <-conns[op.Node].Disconnected():
				tcancel()
			case <-tctx.Done():
				tcancel()
				return &c20dFailure{clause: "wedged", detail: fmt.Sprintf("op %d: node %d did not report Disconnected", i, op.Node)}
			}
			disc[op.Node] = true
			instOf[op.Node] = -1
			cur[op.Node] = c20dHSpec{}
			markNil(op.Node)
		case "wait":
			synctest.Wait()
			if f := check(fmt.Sprintf("after op %d", i), false); f != nil {
				return f
			}
			inflight = inflight[:0]
		}
	}
	synctest.Wait()
	return check("at the end", true)
}

const c20dRule = "line of 3-5 real DaisyChainConnections in a synctest bubble; generated op lists: publish (any node, 3 kinds, generated content, per-node verdict bytes incl. all 256 values), SetConsensusHandler (nil / per-message table / constant verdict) with and without messages in flight, Disconnect, quiescence points; non-trivial = a message blocked at a relay node followed by one that is relayed, or a handler change between two publishes; distinct = distinct op list"

func c20dRunCase(t *testing.T, rt vk.TB, st *vk.Stats, c c20dCase) {
	c20dNorm(&c)
	if st.WantSample() {
		st.Sample(c)
	}
	nt, labels := c20dClassify(c, vk.Excluded(c20dF1))
	st.Case(nt, vk.FP(c), labels...)
	st.WAL(c) // daisy chain goroutines panic on their own stack ("BUG: ...")
	var fail *c20dFailure
	st.Guard(rt, c, func() {
		synctest.Test(t, func(bt *testing.T) {
			fail = c20dExec(bt, st, c)
		})
	})
	if fail != nil {
		st.Fail(rt, c, fail.finding, fail.clause, "%s", fail.detail)
	}
}

func TestVerifC20Daisy(t *testing.T) {
	st := vk.NewStats("C20", "TestVerifC20Daisy", c20dRule)
	defer st.Flush()
	var c c20dCase
	if ok, err := vk.LoadReplay("C20", "TestVerifC20Daisy", &c); err != nil {
		t.Fatal(err)
	} else if ok {
		c20dRunCase(t, t, st, c)
		return
	} else if vk.Replaying() {
		t.Skip("replay file is for another test")
	}
	rapid.Check(t, func(rt *rapid.T) {
		c20dRunCase(t, rt, st, c20dGen(rt))
	})
}
