package gblsminsig_test

// C13 (BLS min-sig scheme): signature proofs merge as verified set union and
// round-trip. Same structure as the simple-scheme harness: generated op lists
// over a pool of proofs, a set-of-signers model, and an oracle that never asks
// the code under test whether a signature is valid: every sparse entry
// (key id = node of the pairwise aggregation tree) is verified with blst
// directly against the key aggregated, by the harness, over the leaves that
// node covers (layout recomputed here from the documented array layout).

import (
	"bytes"
	"context"
	"encoding/binary"
	"fmt"
	"sort"
	"sync"
	"testing"

	"github.com/bits-and-blooms/bitset"
	"github.com/gordian-engine/gordian/gcrypto"
	"github.com/gordian-engine/gordian/gcrypto/gblsminsig"
	"github.com/gordian-engine/gordian/gcrypto/gblsminsig/gblsminsigtest"
	"github.com/gordian-engine/gordian/internal/zzverif/vk"
	blst "github.com/supranational/blst/bindings/go"
	"pgregory.net/rapid"
)

const (
	c13bPoolKeys = 22
	c13bNMsgs    = 6
	c13bMaxN     = 17
	c13bMaxSlots = 7
	c13bFinding  = "C13-F1" // BLS Finalize cannot represent a double signer (panics)
)

// ---------------------------------------------------------------------------
// world

type c13bWorldT struct {
	pubs  []gblsminsig.PubKey
	affs  []*blst.P2Affine
	msgs  [][]byte
	sigs  [][][]byte // [key][msg] compressed leaf signatures
	sigPt [][]*blst.P1Affine
	edKey gcrypto.PubKey
}

var (
	c13bOnce  sync.Once
	c13bWorld c13bWorldT
)

func c13bW() *c13bWorldT {
	c13bOnce.Do(func() {
		w := &c13bWorld
		signers := gblsminsigtest.DeterministicSigners(c13bPoolKeys)
		for m := 0; m < c13bNMsgs; m++ {
			w.msgs = append(w.msgs, []byte(fmt.Sprintf("c13-sign-content-%d", m)))
		}
		for _, s := range signers {
			pk := s.PubKey().(gblsminsig.PubKey)
			w.pubs = append(w.pubs, pk)
			a := blst.P2Affine(pk)
			w.affs = append(w.affs, &a)
			var row [][]byte
			var prow []*blst.P1Affine
			for m := 0; m < c13bNMsgs; m++ {
				sig, err := s.Sign(context.Background(), w.msgs[m])
				if err != nil {
					panic(err)
				}
				row = append(row, sig)
				prow = append(prow, new(blst.P1Affine).Uncompress(sig))
			}
			w.sigs = append(w.sigs, row)
			w.sigPt = append(w.sigPt, prow)
		}
		w.edKey = gcrypto.Ed25519PubKey(bytes.Repeat([]byte{7}, 32))
	})
	return &c13bWorld
}

// ---------------------------------------------------------------------------
// independent tree layout (array layout: leaves first, then each layer of
// pairwise parents, root last; leaves padded to a power of two)

func c13bWidth(n int) int {
	w := 1
	for w < n {
		w <<= 1
	}
	return w
}

func c13bNNodes(n int) int { return 2*c13bWidth(n) - 1 }

// c13bLeaves returns the mask of real leaves covered by node id, ok=false if
// the id is not a node of the tree for n keys.
func c13bLeaves(n, id int) (mask uint32, ok bool) {
	if id < 0 || id >= c13bNNodes(n) {
		return 0, false
	}
	start, width, layer := 0, c13bWidth(n), uint(0)
	for id >= start+width {
		start += width
		width >>= 1
		layer++
	}
	off := id - start
	lo, hi := off<<layer, (off+1)<<layer
	for i := lo; i < hi && i < n; i++ {
		mask |= 1 << uint(i)
	}
	return mask, true
}

func c13bParent(n, id int) int {
	start, width := 0, c13bWidth(n)
	for id >= start+width {
		start += width
		width >>= 1
	}
	if width == 1 {
		return id // root
	}
	return start + width + (id-start)/2
}

// c13bCover returns the maximal aligned nodes whose real leaves are all in mask.
func c13bCover(n int, mask uint32) []int {
	var out []int
	var rec func(id int)
	children := func(id int) (int, int, bool) {
		// invert c13bParent: find layer of id
		start, width := 0, c13bWidth(n)
		for id >= start+width {
			start += width
			width >>= 1
		}
		if start == 0 {
			return 0, 0, false
		}
		prevWidth := width * 2
		prevStart := start - prevWidth
		off := id - start
		return prevStart + 2*off, prevStart + 2*off + 1, true
	}
	rec = func(id int) {
		lv, _ := c13bLeaves(n, id)
		if lv == 0 {
			return
		}
		if lv&mask == lv {
			out = append(out, id)
			return
		}
		if lv&mask == 0 {
			return
		}
		if a, b, ok := children(id); ok {
			rec(a)
			rec(b)
		}
	}
	rec(c13bNNodes(n) - 1)
	return out
}

// ---------------------------------------------------------------------------
// contexts, independent aggregation and verification

type c13bCtx struct {
	keys []int
	msg  int
	hash string
	id   string // identity of the key list for caches
}

func c13bNewCtx(keys []int, msg int, hash string) *c13bCtx {
	c := &c13bCtx{keys: keys, msg: msg, hash: hash}
	b := make([]byte, len(keys))
	for i, k := range keys {
		b[i] = byte(k)
	}
	c.id = string(b)
	return c
}

func (c *c13bCtx) same(o *c13bCtx) bool { return c.id == o.id && c.msg == o.msg && c.hash == o.hash }

func (c *c13bCtx) gkeys() []gcrypto.PubKey {
	w := c13bW()
	out := make([]gcrypto.PubKey, len(c.keys))
	for i, k := range c.keys {
		out[i] = w.pubs[k]
	}
	return out
}

var (
	c13bMu      sync.Mutex
	c13bAggKeyC = map[string]*blst.P2Affine{}
	c13bAggSigC = map[string][]byte{}
	c13bVerC    = map[string]bool{}
)

func c13bMaskKey(c *c13bCtx, mask uint32) string {
	return c.id + string([]byte{0xff, byte(mask), byte(mask >> 8), byte(mask >> 16)})
}

// aggKey: independent aggregation of the public keys in mask (blst's own
// aggregate API, not the tree's pairwise additions).
func c13bAggKey(c *c13bCtx, mask uint32) *blst.P2Affine {
	k := c13bMaskKey(c, mask)
	c13bMu.Lock()
	v, ok := c13bAggKeyC[k]
	c13bMu.Unlock()
	if ok {
		return v
	}
	w := c13bW()
	var pts []*blst.P2Affine
	for i, pk := range c.keys {
		if mask&(1<<uint(i)) != 0 {
			pts = append(pts, w.affs[pk])
		}
	}
	agg := new(blst.P2Aggregate)
	if !agg.Aggregate(pts, true) {
		panic("harness: key aggregation failed")
	}
	v = agg.ToAffine()
	c13bMu.Lock()
	c13bAggKeyC[k] = v
	c13bMu.Unlock()
	return v
}

// aggSig: the valid aggregated signature of the signers in mask over msg.
func c13bAggSig(c *c13bCtx, mask uint32, msg int) []byte {
	k := c13bMaskKey(c, mask) + string([]byte{byte(msg)})
	c13bMu.Lock()
	v, ok := c13bAggSigC[k]
	c13bMu.Unlock()
	if ok {
		return bytes.Clone(v)
	}
	w := c13bW()
	var pts []*blst.P1Affine
	for i, pk := range c.keys {
		if mask&(1<<uint(i)) != 0 {
			pts = append(pts, w.sigPt[pk][msg])
		}
	}
	agg := new(blst.P1Aggregate)
	if !agg.Aggregate(pts, true) {
		panic("harness: signature aggregation failed")
	}
	v = agg.ToAffine().Compress()
	c13bMu.Lock()
	c13bAggSigC[k] = v
	c13bMu.Unlock()
	return bytes.Clone(v)
}

// c13bVerify: does sig verify for the aggregate of the keys in mask over msg?
func c13bVerify(c *c13bCtx, mask uint32, msg []byte, sig []byte) bool {
	if mask == 0 {
		return false
	}
	k := c13bMaskKey(c, mask) + string(msg) + "\x00" + string(sig)
	c13bMu.Lock()
	v, ok := c13bVerC[k]
	c13bMu.Unlock()
	if ok {
		return v
	}
	pt := new(blst.P1Affine).Uncompress(sig)
	if pt != nil {
		v = pt.Verify(true, c13bAggKey(c, mask), true, blst.Message(msg), gblsminsig.DomainSeparationTag)
	}
	c13bMu.Lock()
	if len(c13bVerC) > 1<<15 {
		c13bVerC = map[string]bool{}
	}
	c13bVerC[k] = v
	c13bMu.Unlock()
	return v
}

var c13bInfinitySig = append([]byte{0xc0}, make([]byte, 47)...)

// ---------------------------------------------------------------------------
// case data

type c13bMut struct {
	K int `json:"k"`
	J int `json:"j"`
	X int `json:"x"`
}

var c13bMutNames = []string{"flipsig", "oor-id", "dup-id", "badlen-id", "wrong-hash", "otherkey-sig", "garbage-sig", "reverse", "othermsg-sig",
	"agg-missing-leaf", "parent-id", "infinity-sig", "sibling-id"}

type c13bOp struct {
	K   string    `json:"k"` // add | merge | sparse | clone | derive | rt
	P   int       `json:"p"`
	Q   int       `json:"q,omitempty"`
	I   int       `json:"i,omitempty"`
	V   int       `json:"v,omitempty"`
	X   int       `json:"x,omitempty"`
	Src int       `json:"src,omitempty"` // sparse: 0 AsSparse(slot q), 1 leaves of mask s, 2 node list e, 3 maximal aggregates covering mask s
	S   uint32    `json:"s,omitempty"`
	E   []int     `json:"e,omitempty"`
	Mut []c13bMut `json:"mut,omitempty"`
}

type c13bCase struct {
	N       int      `json:"n"`
	Rot     int      `json:"rot"`
	Foreign int      `json:"foreign"` // slot 3: 0 keys shifted, 1 other message, 2 other hash, 3 last key replaced, 4 one key fewer, 5 two keys swapped
	Ops     []c13bOp `json:"ops"`
}

var c13bAddVariants = []string{"valid", "flipped", "otherkey", "othermsg", "garbage", "empty", "infinity", "wrong-key-type"}

// ---------------------------------------------------------------------------
// interpreter

type c13bSlot struct {
	p     gcrypto.CommonMessageSignatureProof
	ctx   *c13bCtx
	model uint32
}

type c13bRun struct {
	t      vk.TB
	st     *vk.Stats
	c      any
	scheme gcrypto.CommonMessageSignatureProofScheme
	slots  []*c13bSlot
	step   int
	opdesc string
	mix    bool
	labels map[string]bool
}

func (r *c13bRun) fail(clause, format string, args ...any) {
	r.t.Helper()
	if r.st == nil {
		r.t.Fatalf("VERIF-FAIL property=C13 clause=%q: %s: %s", clause, r.opdesc, fmt.Sprintf(format, args...))
	}
	r.st.Fail(r.t, r.c, "", clause, "step %d (%s): %s", r.step, r.opdesc, fmt.Sprintf(format, args...))
}

func c13bMaskOf(bs *bitset.BitSet) (uint32, bool) {
	var m uint32
	for u, found := bs.NextSet(0); found; u, found = bs.NextSet(u + 1) {
		if u >= 32 {
			return m, false
		}
		m |= 1 << u
	}
	return m, true
}

func c13bKeyID(i int) []byte {
	var b [2]byte
	binary.BigEndian.PutUint16(b[:], uint16(i))
	return b[:]
}

func c13bAbs(x int) int {
	if x < 0 {
		return -x
	}
	return x
}

func (r *c13bRun) newProof(ctx *c13bCtx) gcrypto.CommonMessageSignatureProof {
	p, err := r.scheme.New(bytes.Clone(c13bW().msgs[ctx.msg]), ctx.gkeys(), ctx.hash)
	if err != nil {
		r.fail("new", "scheme.New: %v", err)
	}
	return p
}

func (r *c13bRun) bits(s *c13bSlot) uint32 {
	var bs bitset.BitSet
	s.p.SignatureBitSet(&bs)
	m, ok := c13bMaskOf(&bs)
	if !ok || m>>uint(len(s.ctx.keys)) != 0 {
		r.fail("bitset-range", "bit set %s has bits beyond the %d candidate keys", bs.String(), len(s.ctx.keys))
	}
	return m
}

func (r *c13bRun) checkAll(touched int) {
	for i, s := range r.slots {
		if got := r.bits(s); got != s.model {
			cl := "bitset-vs-model"
			if i != touched {
				cl = "untouched-proof-changed"
			}
			r.fail(cl, "slot %d: SignatureBitSet=%#x, model (prior set plus independently verified offered signers)=%#x", i, got, s.model)
		}
	}
	if touched >= 0 {
		r.checkSparseBacked(touched)
	}
}

// checkSparseBacked: each AsSparse entry verifies against the independently
// aggregated key of the leaves its node id covers; the covered leaves are
// exactly the bit set.
func (r *c13bRun) checkSparseBacked(i int) {
	s := r.slots[i]
	sp := s.p.AsSparse()
	if sp.PubKeyHash != s.ctx.hash {
		r.fail("sparse-hash", "slot %d: AsSparse().PubKeyHash=%q want %q", i, sp.PubKeyHash, s.ctx.hash)
	}
	n := len(s.ctx.keys)
	msg := c13bW().msgs[s.ctx.msg]
	var m uint32
	for _, e := range sp.Signatures {
		if len(e.KeyID) != 2 {
			r.fail("sparse-keyid", "slot %d: AsSparse key id %x is not 2 bytes", i, e.KeyID)
		}
		id := int(binary.BigEndian.Uint16(e.KeyID))
		lv, ok := c13bLeaves(n, id)
		if !ok || lv == 0 {
			r.fail("sparse-keyid", "slot %d: AsSparse key id %d is not a node covering a real key (n=%d)", i, id, n)
		}
		if !c13bVerify(s.ctx, lv, msg, e.Sig) {
			r.fail("unverified-signature-held", "slot %d: AsSparse entry id=%d (leaves %#x) does not verify against the independently aggregated key", i, id, lv)
		}
		m |= lv
	}
	if m != s.model {
		r.fail("sparse-vs-bitset", "slot %d: leaves covered by AsSparse=%#x, bit set/model=%#x", i, m, s.model)
	}
}

func (r *c13bRun) slot(k int) (int, *c13bSlot) {
	i := c13bAbs(k) % len(r.slots)
	return i, r.slots[i]
}

func (r *c13bRun) addSlot(at int, s *c13bSlot) int {
	if len(r.slots) < c13bMaxSlots {
		r.slots = append(r.slots, s)
		return len(r.slots) - 1
	}
	i := 4 + c13bAbs(at)%(c13bMaxSlots-4)
	r.slots[i] = s
	return i
}

func c13bFlip(b []byte, x int) []byte {
	o := bytes.Clone(b)
	if len(o) == 0 {
		return []byte{1}
	}
	x = c13bAbs(x)
	o[(x/8)%len(o)] ^= 1 << uint(x%8)
	return o
}

func c13bGarbage(x int) []byte {
	x = c13bAbs(x)
	n := x % 60
	if x%5 == 0 {
		n = 48
	}
	o := make([]byte, n)
	for i := range o {
		o[i] = byte(x + 31*i)
	}
	return o
}

func c13bOutsider(ctx *c13bCtx, x int) int {
	in := map[int]bool{}
	for _, k := range ctx.keys {
		in[k] = true
	}
	var out []int
	for k := 0; k < c13bPoolKeys; k++ {
		if !in[k] {
			out = append(out, k)
		}
	}
	return out[c13bAbs(x)%len(out)]
}

func (r *c13bRun) opAdd(op c13bOp) {
	w := c13bW()
	pi, s := r.slot(op.P)
	n := len(s.ctx.keys)
	pos := c13bAbs(op.I) % (n + 2)
	inSet := pos < n
	var key int
	if inSet {
		key = s.ctx.keys[pos]
	} else {
		key = c13bOutsider(s.ctx, op.I+op.X)
	}
	v := c13bAbs(op.V) % len(c13bAddVariants)
	x := c13bAbs(op.X)
	var sig []byte
	var gk gcrypto.PubKey = w.pubs[key]
	switch v {
	case 0:
		sig = bytes.Clone(w.sigs[key][s.ctx.msg])
	case 1:
		sig = c13bFlip(w.sigs[key][s.ctx.msg], x)
	case 2:
		sig = bytes.Clone(w.sigs[s.ctx.keys[(pos+1+x)%n]][s.ctx.msg])
	case 3:
		sig = bytes.Clone(w.sigs[key][(s.ctx.msg+1+x%(c13bNMsgs-1))%c13bNMsgs])
	case 4:
		sig = c13bGarbage(x)
	case 5:
		sig = nil
	case 6:
		sig = bytes.Clone(c13bInfinitySig)
	case 7:
		sig = bytes.Clone(w.sigs[key][s.ctx.msg])
		gk = w.edKey
		inSet = false
	}
	r.opdesc = fmt.Sprintf("add slot=%d pos=%d inSet=%v variant=%s", pi, pos, inSet, c13bAddVariants[v])
	sigOK := false
	if inSet {
		sigOK = c13bVerify(s.ctx, 1<<uint(pos), w.msgs[s.ctx.msg], sig)
	}
	want := inSet && sigOK
	r.labels["add:"+c13bAddVariants[v]] = true
	if !inSet {
		r.labels["add:key-not-in-set"] = true
	}
	if s.model&(1<<uint(pos%32)) != 0 && inSet && !sigOK {
		r.labels["add:bad-sig-for-held-signer"] = true
	}
	for rep := 0; rep < 2; rep++ {
		err := s.p.AddSignature(bytes.Clone(sig), gk)
		if (err == nil) != want {
			r.fail("add-result", "AddSignature (repeat %d) err=%v, independently: key in set=%v signature verifies=%v", rep, err, inSet, sigOK)
		}
		if want {
			s.model |= 1 << uint(pos)
		}
		r.checkAll(pi)
	}
}

func (r *c13bRun) checkRes(what string, got gcrypto.SignatureProofMergeResult, allValid, increased bool) {
	// WasStrictSuperset is not checked for this scheme: the compliance suite
	// that defines it is not run against it (and MergeSparse leaves it unset).
	if got.AllValidSignatures != allValid {
		r.fail("flag-AllValidSignatures", "%s: AllValidSignatures=%v, independently=%v (result %+v)", what, got.AllValidSignatures, allValid, got)
	}
	if got.IncreasedSignatures != increased {
		r.fail("flag-IncreasedSignatures", "%s: IncreasedSignatures=%v, but the signer set grew=%v (result %+v)", what, got.IncreasedSignatures, increased, got)
	}
}

// c13bEvalSparse: independent evaluation of a sparse proof against ctx.
func c13bEvalSparse(ctx *c13bCtx, sp gcrypto.SparseSignatureProof) (hashOK bool, validSet uint32, nValid, nInvalid int) {
	msg := c13bW().msgs[ctx.msg]
	hashOK = sp.PubKeyHash == ctx.hash
	n := len(ctx.keys)
	for _, e := range sp.Signatures {
		ok := false
		if len(e.KeyID) == 2 {
			id := int(binary.BigEndian.Uint16(e.KeyID))
			if lv, in := c13bLeaves(n, id); in && lv != 0 && c13bVerify(ctx, lv, msg, e.Sig) {
				ok = true
				validSet |= lv
			}
		}
		if ok {
			nValid++
		} else {
			nInvalid++
		}
	}
	return
}

func c13bCloneSparse(sp gcrypto.SparseSignatureProof) gcrypto.SparseSignatureProof {
	o := gcrypto.SparseSignatureProof{PubKeyHash: sp.PubKeyHash}
	for _, e := range sp.Signatures {
		o.Signatures = append(o.Signatures, gcrypto.SparseSignature{KeyID: bytes.Clone(e.KeyID), Sig: bytes.Clone(e.Sig)})
	}
	return o
}

func (r *c13bRun) opMerge(op c13bOp) {
	pi, p := r.slot(op.P)
	qi, q := r.slot(op.Q)
	r.opdesc = fmt.Sprintf("merge slot=%d <- slot=%d", pi, qi)
	// Matches for this scheme compares message and key hash only.
	match := p.ctx.msg == q.ctx.msg && p.ctx.hash == q.ctx.hash
	foreignKeys := match && p.ctx.id != q.ctx.id
	if !match {
		r.labels["merge:non-matching"] = true
	}
	if foreignKeys {
		r.labels["merge:same-hash-other-keys"] = true
	}
	for rep := 0; rep < 2; rep++ {
		before := p.model
		// What q offers, as seen from outside: its sparse form (itself verified
		// by checkSparseBacked whenever q was touched), evaluated against p's keys.
		offered := c13bCloneSparse(q.p.AsSparse())
		offered.PubKeyHash = p.ctx.hash
		_, validSet, nValid, nInvalid := c13bEvalSparse(p.ctx, offered)
		res := p.p.Merge(q.p)
		what := fmt.Sprintf("Merge (repeat %d) before=%#x verifying offered=%#x valid=%d invalid=%d", rep, before, validSet, nValid, nInvalid)
		if !match {
			r.checkRes(what+" non-matching proofs", res, false, false)
		} else {
			if rep == 0 && nValid > 0 && nInvalid > 0 {
				r.mix = true
				r.labels["merge:mix-valid-invalid"] = true
			}
			after := before | validSet
			p.model = after
			r.checkRes(what, res, nInvalid == 0, after != before)
			if rep == 1 && res.IncreasedSignatures {
				r.fail("idempotence", "%s: repeating the merge reported IncreasedSignatures", what)
			}
			if after != before {
				r.labels["merge:increased"] = true
			}
		}
		r.checkAll(pi)
	}
}

func c13bMutate(ctx *c13bCtx, sp gcrypto.SparseSignatureProof, muts []c13bMut, labels map[string]bool) gcrypto.SparseSignatureProof {
	w := c13bW()
	n := len(ctx.keys)
	nn := c13bNNodes(n)
	for _, m := range muts {
		k := c13bAbs(m.K) % len(c13bMutNames)
		x := c13bAbs(m.X)
		j := c13bAbs(m.J)
		labels["corrupt:"+c13bMutNames[k]] = true
		if k == 4 {
			sp.PubKeyHash += "x"
			continue
		}
		if k == 7 {
			for a, b := 0, len(sp.Signatures)-1; a < b; a, b = a+1, b-1 {
				sp.Signatures[a], sp.Signatures[b] = sp.Signatures[b], sp.Signatures[a]
			}
			continue
		}
		if len(sp.Signatures) == 0 {
			pos := j % n
			sp.Signatures = append(sp.Signatures, gcrypto.SparseSignature{KeyID: c13bKeyID(pos), Sig: bytes.Clone(w.sigs[ctx.keys[pos]][ctx.msg])})
		}
		e := &sp.Signatures[j%len(sp.Signatures)]
		id, lv := -1, uint32(0)
		if len(e.KeyID) == 2 {
			id = int(binary.BigEndian.Uint16(e.KeyID))
			lv, _ = c13bLeaves(n, id)
		}
		switch k {
		case 0:
			e.Sig = c13bFlip(e.Sig, x)
		case 1:
			if x%4 == 0 {
				e.KeyID = []byte{0xff, 0xff}
			} else {
				e.KeyID = c13bKeyID(nn + x%4 - 1)
			}
		case 2:
			d := gcrypto.SparseSignature{KeyID: bytes.Clone(e.KeyID), Sig: bytes.Clone(e.Sig)}
			if x%2 == 1 {
				d.Sig = c13bFlip(d.Sig, x)
			}
			sp.Signatures = append(sp.Signatures, d)
		case 3:
			switch x % 3 {
			case 0:
				e.KeyID = nil
			case 1:
				if len(e.KeyID) >= 2 && x%2 == 0 {
					e.KeyID = []byte{e.KeyID[1]}
				} else {
					e.KeyID = []byte{byte(x)}
				}
			case 2:
				e.KeyID = append(bytes.Clone(e.KeyID), byte(x))
				for len(e.KeyID) < 3 {
					e.KeyID = append(e.KeyID, 0)
				}
			}
		case 5:
			e.Sig = bytes.Clone(w.sigs[ctx.keys[(j+1+x)%n]][ctx.msg])
		case 6:
			switch x % 3 {
			case 0:
				e.Sig = nil
			case 1:
				e.Sig = c13bGarbage(x)
			case 2:
				if len(e.Sig) > 0 {
					e.Sig = bytes.Clone(e.Sig[:x%len(e.Sig)])
				}
			}
		case 8:
			if lv != 0 {
				e.Sig = c13bAggSig(ctx, lv, (ctx.msg+1+x%(c13bNMsgs-1))%c13bNMsgs)
			}
		case 9:
			// aggregate that lacks one of the leaves the node claims
			if lv != 0 && lv&(lv-1) != 0 {
				drop := lv
				for b, c := 0, x%32; ; b = (b + 1) % 32 {
					if lv&(1<<uint(b)) != 0 {
						if c == 0 {
							drop = 1 << uint(b)
							break
						}
						c--
					}
				}
				e.Sig = c13bAggSig(ctx, lv&^drop, ctx.msg)
			}
		case 10:
			if id >= 0 && id < nn {
				e.KeyID = c13bKeyID(c13bParent(n, id))
			}
		case 11:
			e.Sig = bytes.Clone(c13bInfinitySig)
		case 12:
			if id >= 0 && id < nn-1 {
				e.KeyID = c13bKeyID(id ^ 1)
			}
		}
	}
	return sp
}

func (r *c13bRun) opSparse(op c13bOp) {
	w := c13bW()
	pi, p := r.slot(op.P)
	n := len(p.ctx.keys)
	nn := c13bNNodes(n)
	var sp gcrypto.SparseSignatureProof
	sp.PubKeyHash = p.ctx.hash
	mask := op.S & (1<<uint(n) - 1)
	switch c13bAbs(op.Src) % 4 {
	case 0:
		qi, q := r.slot(op.Q)
		sp = c13bCloneSparse(q.p.AsSparse())
		r.opdesc = fmt.Sprintf("mergesparse slot=%d <- AsSparse(slot %d) corruptions=%d", pi, qi, len(op.Mut))
		r.labels["sparse:from-proof"] = true
	case 1:
		for i := 0; i < n; i++ {
			if mask&(1<<uint(i)) != 0 {
				sp.Signatures = append(sp.Signatures, gcrypto.SparseSignature{KeyID: c13bKeyID(i), Sig: bytes.Clone(w.sigs[p.ctx.keys[i]][p.ctx.msg])})
			}
		}
		r.opdesc = fmt.Sprintf("mergesparse slot=%d <- leaves of mask=%#x corruptions=%d", pi, mask, len(op.Mut))
		r.labels["sparse:built-leaves"] = true
	case 2:
		for _, e := range op.E {
			id := c13bAbs(e) % nn
			lv, _ := c13bLeaves(n, id)
			var sig []byte
			if lv != 0 {
				sig = c13bAggSig(p.ctx, lv, p.ctx.msg)
			} else {
				// node over padding only: there is no key, hence no valid signature
				sig = bytes.Clone(c13bInfinitySig)
				r.labels["sparse:padding-node"] = true
			}
			sp.Signatures = append(sp.Signatures, gcrypto.SparseSignature{KeyID: c13bKeyID(id), Sig: sig})
		}
		r.opdesc = fmt.Sprintf("mergesparse slot=%d <- aggregated nodes %v corruptions=%d", pi, op.E, len(op.Mut))
		r.labels["sparse:built-nodes"] = true
	case 3:
		for _, id := range c13bCover(n, mask) {
			lv, _ := c13bLeaves(n, id)
			sp.Signatures = append(sp.Signatures, gcrypto.SparseSignature{KeyID: c13bKeyID(id), Sig: c13bAggSig(p.ctx, lv, p.ctx.msg)})
		}
		r.opdesc = fmt.Sprintf("mergesparse slot=%d <- maximal aggregates of mask=%#x corruptions=%d", pi, mask, len(op.Mut))
		r.labels["sparse:built-cover"] = true
	}
	sp = c13bMutate(p.ctx, sp, op.Mut, r.labels)
	r.mergeSparseChecked(pi, p, sp, true)
}

func (r *c13bRun) mergeSparseChecked(pi int, p *c13bSlot, sp gcrypto.SparseSignatureProof, count bool) {
	hashOK, validSet, nValid, nInvalid := c13bEvalSparse(p.ctx, sp)
	if count {
		if hashOK && nValid > 0 && nInvalid > 0 {
			r.mix = true
			r.labels["sparse:mix-valid-invalid"] = true
		}
		if nInvalid == 0 {
			r.labels["sparse:all-valid"] = true
		}
		if nValid == 0 && nInvalid > 0 {
			r.labels["sparse:all-invalid"] = true
		}
	}
	for rep := 0; rep < 2; rep++ {
		before := p.model
		res := p.p.MergeSparse(c13bCloneSparse(sp))
		what := fmt.Sprintf("MergeSparse (repeat %d) before=%#x verifying offered=%#x valid entries=%d invalid entries=%d hashOK=%v", rep, before, validSet, nValid, nInvalid, hashOK)
		if !hashOK {
			r.checkRes(what, res, false, false)
		} else {
			after := before | validSet
			p.model = after
			r.checkRes(what, res, nInvalid == 0, after != before)
			if rep == 1 && res.IncreasedSignatures {
				r.fail("idempotence", "%s: repeating the merge reported IncreasedSignatures", what)
			}
			if after != before {
				r.labels["sparse:increased"] = true
			}
		}
		r.checkAll(pi)
	}
}

func (r *c13bRun) opClone(op c13bOp) {
	pi, p := r.slot(op.P)
	cl := p.p.Clone()
	ni := r.addSlot(op.Q, &c13bSlot{p: cl, ctx: p.ctx, model: p.model})
	r.opdesc = fmt.Sprintf("clone slot=%d -> slot=%d", pi, ni)
	if !p.p.Matches(cl) || !cl.Matches(p.p) {
		r.fail("clone-matches", "a clone does not match its origin")
	}
	r.checkAll(ni)
}

func (r *c13bRun) opDerive(op c13bOp) {
	pi, p := r.slot(op.P)
	d := p.p.Derive()
	ni := r.addSlot(op.Q, &c13bSlot{p: d, ctx: p.ctx, model: 0})
	r.opdesc = fmt.Sprintf("derive slot=%d -> slot=%d", pi, ni)
	if !p.p.Matches(d) {
		r.fail("derive-matches", "a derived proof does not match its origin")
	}
	r.checkAll(ni)
}

func (r *c13bRun) opRoundTrip(op c13bOp) {
	pi, p := r.slot(op.P)
	sp := c13bCloneSparse(p.p.AsSparse())
	want := p.model
	fresh := &c13bSlot{p: r.newProof(p.ctx), ctx: p.ctx}
	ni := r.addSlot(op.Q, fresh)
	r.opdesc = fmt.Sprintf("roundtrip slot=%d -> AsSparse -> new proof slot=%d", pi, ni)
	r.mergeSparseChecked(ni, fresh, sp, false)
	if fresh.model != want {
		r.fail("sparse-roundtrip", "proof rebuilt from its sparse form has signers %#x, origin has %#x", fresh.model, want)
	}
}

func c13bForeignCtx(base *c13bCtx, kind, rot int) *c13bCtx {
	n := len(base.keys)
	keys := append([]int(nil), base.keys...)
	msg, hash := base.msg, base.hash
	switch c13bAbs(kind) % 6 {
	case 0:
		for i := range keys {
			keys[i] = (rot + i + 1) % c13bPoolKeys
		}
	case 1:
		msg = 1
	case 2:
		hash += "-other"
	case 3:
		keys[n-1] = (rot + n) % c13bPoolKeys
	case 4:
		if n > 1 {
			keys = keys[:n-1]
		} else {
			keys = append(keys, (rot+n)%c13bPoolKeys)
		}
	case 5:
		if n > 1 {
			keys[0], keys[n-1] = keys[n-1], keys[0]
		}
	}
	return c13bNewCtx(keys, msg, hash)
}

func c13bNormCase(c *c13bCase) {
	if c.N < 1 {
		c.N = 1
	}
	if c.N > c13bMaxN {
		c.N = c13bMaxN
	}
	c.Rot = c13bAbs(c.Rot) % c13bPoolKeys
	c.Foreign = c13bAbs(c.Foreign)
}

func c13bRunCase(t vk.TB, st *vk.Stats, c c13bCase) {
	c13bNormCase(&c)
	if st.WantSample() {
		st.Sample(c)
	}
	r := &c13bRun{t: t, st: st, c: c, scheme: gblsminsig.SignatureProofScheme{}, labels: map[string]bool{}}
	defer func() {
		ls := []string{fmt.Sprintf("n=%02d", c.N)}
		for l := range r.labels {
			ls = append(ls, l)
		}
		sort.Strings(ls)
		if r.mix {
			ls = append(ls, "nontrivial")
		}
		st.Case(r.mix, vk.FP(c), ls...)
	}()
	st.WAL(c) // blst is cgo: a crash inside it would take the process down
	st.Guard(t, c, func() {
		var keys []int
		for i := 0; i < c.N; i++ {
			keys = append(keys, (c.Rot+i)%c13bPoolKeys)
		}
		base := c13bNewCtx(keys, 0, "c13-keyhash")
		for i := 0; i < 3; i++ {
			r.slots = append(r.slots, &c13bSlot{p: r.newProof(base), ctx: base})
		}
		fctx := c13bForeignCtx(base, c.Foreign, c.Rot)
		r.slots = append(r.slots, &c13bSlot{p: r.newProof(fctx), ctx: fctx})
		r.opdesc = "initial"
		r.checkAll(-1)
		for i, op := range c.Ops {
			r.step = i
			r.labels["op:"+op.K] = true
			switch op.K {
			case "add":
				r.opAdd(op)
			case "merge":
				r.opMerge(op)
			case "sparse":
				r.opSparse(op)
			case "clone":
				r.opClone(op)
			case "derive":
				r.opDerive(op)
			case "rt":
				r.opRoundTrip(op)
			}
		}
		r.step = len(c.Ops)
		r.opdesc = "final sweep"
		for i := range r.slots {
			r.checkSparseBacked(i)
		}
	})
}

// ---------------------------------------------------------------------------
// generators

// all non powers of two first, so that rapid's bias towards early elements
// favours the padded trees.
var c13bSizes = []int{5, 3, 7, 6, 9, 11, 2, 13, 10, 12, 17, 1, 14, 15, 4, 8, 16}

func c13bGenMut(t *rapid.T) c13bMut {
	return c13bMut{
		K: rapid.IntRange(0, len(c13bMutNames)-1).Draw(t, "mk"),
		J: rapid.IntRange(0, 20).Draw(t, "mj"),
		X: rapid.IntRange(0, 600).Draw(t, "mx"),
	}
}

func c13bGenMask(t *rapid.T, n int) uint32 {
	full := uint32(1)<<uint(n) - 1
	switch rapid.IntRange(0, 9).Draw(t, "maskkind") {
	case 0, 1, 2:
		return full
	case 3:
		return 1 << uint(rapid.IntRange(0, n-1).Draw(t, "bit"))
	case 4:
		return 0
	default:
		return rapid.Uint32Range(0, full).Draw(t, "mask")
	}
}

func c13bGenOp(t *rapid.T, n int) c13bOp {
	kind := rapid.SampledFrom([]string{"add", "add", "add", "merge", "merge", "sparse", "sparse", "sparse", "sparse", "clone", "derive", "rt"}).Draw(t, "k")
	op := c13bOp{K: kind, P: rapid.IntRange(0, c13bMaxSlots-1).Draw(t, "p")}
	// slot 3 is the foreign proof: give it signatures and offer it often, so that
	// merges meet keys that only partly coincide.
	foreignBias := rapid.IntRange(0, 9).Draw(t, "foreignbias")
	switch kind {
	case "add":
		if foreignBias < 3 {
			op.P = 3
		}
		op.I = rapid.IntRange(0, n+1).Draw(t, "i")
		if rapid.IntRange(0, 9).Draw(t, "validbias") < 6 {
			op.V = 0
			if op.I >= n && rapid.Bool().Draw(t, "inset") {
				op.I = rapid.IntRange(0, n-1).Draw(t, "i2")
			}
		} else {
			op.V = rapid.IntRange(1, len(c13bAddVariants)-1).Draw(t, "v")
		}
		op.X = rapid.IntRange(0, 600).Draw(t, "x")
	case "merge":
		op.Q = rapid.IntRange(0, c13bMaxSlots-1).Draw(t, "q")
		if foreignBias < 4 {
			op.Q = 3
		}
	case "sparse":
		op.Q = rapid.IntRange(0, c13bMaxSlots-1).Draw(t, "q")
		if foreignBias < 3 {
			op.Q = 3
		}
		op.Src = rapid.IntRange(0, 3).Draw(t, "src")
		switch op.Src {
		case 1, 3:
			op.S = c13bGenMask(t, n)
		case 2:
			op.E = rapid.SliceOfN(rapid.IntRange(0, c13bNNodes(n)-1), 1, 5).Draw(t, "nodes")
		}
		if rapid.IntRange(0, 9).Draw(t, "corrupt") < 7 {
			op.Mut = rapid.SliceOfN(rapid.Custom(c13bGenMut), 1, 3).Draw(t, "mut")
		}
	case "clone", "derive", "rt":
		op.Q = rapid.IntRange(0, 20).Draw(t, "q")
	}
	return op
}

func c13bGenCase(t *rapid.T) c13bCase {
	n := rapid.SampledFrom(c13bSizes).Draw(t, "n")
	c := c13bCase{
		N:       n,
		Rot:     rapid.IntRange(0, 3).Draw(t, "rot"),
		// mostly the kinds whose keys partly coincide position by position with the pool's
		Foreign: rapid.SampledFrom([]int{3, 5, 3, 5, 4, 0, 1, 2}).Draw(t, "foreign"),
	}
	c.Ops = rapid.SliceOfN(rapid.Custom(func(t *rapid.T) c13bOp { return c13bGenOp(t, n) }), 3, 16).Draw(t, "ops")
	return c
}

const c13bRule = "op lists (3-16 ops: add/merge/sparse/clone/derive/rt) over a pool of 3 proofs for one (message, n=1..17 BLS keys incl. every non power of two, hash) plus one foreign proof (same hash, other keys/message/hash); sparse merges come from another proof's AsSparse or are harness-built (leaves of any mask, arbitrary aggregated tree nodes incl. padding nodes, maximal aggregates of a mask) and then corrupted (bit-flipped/other-key/other-message/garbage/infinity signature, aggregate lacking a leaf, parent/sibling id, out-of-range, duplicate, 0/1/3-byte key id, wrong hash); non-trivial = at least one Merge/MergeSparse offering both verifying and non-verifying signatures; distinct = distinct (n, rot, foreign, op list)"

func TestVerifC13BLSOps(t *testing.T) {
	st := vk.NewStats("C13", "TestVerifC13BLSOps", c13bRule)
	defer st.Flush()
	var c c13bCase
	if ok, err := vk.LoadReplay("C13", "TestVerifC13BLSOps", &c); err != nil {
		t.Fatal(err)
	} else if ok {
		c13bRunCase(t, st, c)
		return
	} else if vk.Replaying() {
		t.Skip("replay file is for another test")
	}
	rapid.Check(t, func(rt *rapid.T) {
		c13bRunCase(rt, st, c13bGenCase(rt))
	})
}
