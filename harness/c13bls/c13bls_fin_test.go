package gblsminsig_test

// C13, BLS scheme: Finalize / ValidateFinalizedProof round trip over generated
// partitions of signers, corrupted finalized proofs, and the native fuzz
// targets (thorough tier).

import (
	"bytes"
	"encoding/binary"
	"fmt"
	"sort"
	"testing"

	"github.com/bits-and-blooms/bitset"
	"github.com/gordian-engine/gordian/gcrypto"
	"github.com/gordian-engine/gordian/gcrypto/gblsminsig"
	"github.com/gordian-engine/gordian/internal/zzverif/vk"
	"pgregory.net/rapid"
)

type c13bFinMut struct {
	K int `json:"k"`
	B int `json:"b"`
	X int `json:"x"`
}

var c13bFinMutNames = []string{"k-zero", "k-too-big", "k-set", "index-append-ff", "index-truncate", "index-inc", "index-leading-zero", "short-id",
	"flipsig", "garbage-sig", "infinity-sig", "drop-entries", "dup-entry", "othermsg-main", "unknown-rest-block", "swap-sigs", "wrong-hash", "index-huge"}

type c13bDbl struct {
	I int `json:"i"`
	B int `json:"b"`
}

type c13bFinCase struct {
	N      int          `json:"n"`
	Rot    int          `json:"rot"`
	Assign []int        `json:"assign"`
	Dbl    []c13bDbl    `json:"dbl,omitempty"`
	Via    int          `json:"via"` // 0 AddSignature, 1 MergeSparse of leaves, 2 MergeSparse of maximal aggregates
	Order  int          `json:"order"`
	Mut    []c13bFinMut `json:"mut,omitempty"`
}

const c13bMaxBlocks = 5

func c13bCloneFin(in gcrypto.FinalizedCommonMessageSignatureProof) gcrypto.FinalizedCommonMessageSignatureProof {
	out := gcrypto.FinalizedCommonMessageSignatureProof{
		Keys:        append([]gcrypto.PubKey(nil), in.Keys...),
		PubKeyHash:  in.PubKeyHash,
		MainMessage: bytes.Clone(in.MainMessage),
	}
	cl := func(ss []gcrypto.SparseSignature) []gcrypto.SparseSignature {
		if ss == nil {
			return nil
		}
		o := make([]gcrypto.SparseSignature, len(ss))
		for i, s := range ss {
			o[i] = gcrypto.SparseSignature{KeyID: bytes.Clone(s.KeyID), Sig: bytes.Clone(s.Sig)}
		}
		return o
	}
	out.MainSignatures = cl(in.MainSignatures)
	if in.Rest != nil {
		out.Rest = map[string][]gcrypto.SparseSignature{}
		for k, v := range in.Rest {
			out.Rest[k] = cl(v)
		}
	}
	return out
}

// c13bCheckFinArbitrary: an arbitrary finalized proof must be handled without
// panic (guarded by the caller) and whatever signer sets are reported must be
// backed by a signature of that block verifying against the independently
// aggregated key of exactly those signers.
func c13bCheckFinArbitrary(t vk.TB, st *vk.Stats, c any, ctx *c13bCtx, mf gcrypto.FinalizedCommonMessageSignatureProof, hashes map[string]string) {
	fail := func(clause, format string, args ...any) {
		t.Helper()
		if st != nil {
			st.Fail(t, c, "", clause, format, args...)
		}
		t.Fatalf("VERIF-FAIL property=C13 clause=%q: %s", clause, fmt.Sprintf(format, args...))
	}
	out, unique := gblsminsig.SignatureProofScheme{}.ValidateFinalizedProof(c13bCloneFin(mf), hashes)
	if out == nil {
		if unique {
			fail("corrupt-finalized", "nil map returned together with allSignaturesUnique=true")
		}
		return
	}
	rev := map[string]string{}
	for content, h := range hashes {
		rev[h] = content
	}
	n := len(ctx.keys)
	var all uint32
	disjoint := true
	hs := make([]string, 0, len(out))
	for h := range out {
		hs = append(hs, h)
	}
	sort.Strings(hs)
	for _, h := range hs {
		bs := out[h]
		content, ok := rev[h]
		if !ok || bs == nil {
			fail("corrupt-finalized", "validated map has unknown key %q or nil set", h)
		}
		mask, inRange := c13bMaskOf(bs)
		if !inRange || mask>>uint(n) != 0 {
			fail("bitset-range", "block %q: signer set %s beyond %d keys", content, bs.String(), n)
		}
		var sigs []gcrypto.SparseSignature
		if content == string(mf.MainMessage) {
			sigs = append(sigs, mf.MainSignatures...)
		}
		sigs = append(sigs, mf.Rest[content]...)
		backed := false
		for _, s := range sigs {
			if c13bVerify(ctx, mask, []byte(content), s.Sig) {
				backed = true
			}
		}
		if !backed {
			fail("unverified-signer-reported", "block %q reported signers %#x but none of its %d signatures verifies against the aggregate of exactly those keys", content, mask, len(sigs))
		}
		if all&mask != 0 {
			disjoint = false
		}
		all |= mask
	}
	if unique && !disjoint {
		fail("double-signer-report", "allSignaturesUnique=true but reported sets overlap")
	}
	if _, ok := out[hashes[string(mf.MainMessage)]]; !ok {
		fail("corrupt-finalized", "accepted proof without a set for the main block")
	}
}

func c13bMutateFin(f *gcrypto.FinalizedCommonMessageSignatureProof, ctx *c13bCtx, muts []c13bFinMut, hashes map[string]string, labels map[string]bool) {
	w := c13bW()
	n := len(ctx.keys)
	for _, m := range muts {
		k := c13bAbs(m.K) % len(c13bFinMutNames)
		b := c13bAbs(m.B)
		x := c13bAbs(m.X)
		labels["corrupt:"+c13bFinMutNames[k]] = true
		restKeys := make([]string, 0, len(f.Rest))
		for c := range f.Rest {
			restKeys = append(restKeys, c)
		}
		sort.Strings(restKeys)
		sel := b % (1 + len(restKeys))
		get := func() []gcrypto.SparseSignature {
			if sel == 0 {
				return f.MainSignatures
			}
			return f.Rest[restKeys[sel-1]]
		}
		set := func(ss []gcrypto.SparseSignature) {
			if sel == 0 {
				f.MainSignatures = ss
			} else {
				f.Rest[restKeys[sel-1]] = ss
			}
		}
		switch k {
		case 13:
			f.MainMessage = bytes.Clone(w.msgs[(1+x)%c13bNMsgs])
			continue
		case 14:
			if f.Rest == nil {
				f.Rest = map[string][]gcrypto.SparseSignature{}
			}
			c := fmt.Sprintf("c13-unknown-content-%d", x%3)
			kk := x % (n + 2)
			id := c13bKeyID(kk)
			if x%2 == 0 {
				id = append(id, byte(x))
			}
			f.Rest[c] = []gcrypto.SparseSignature{{KeyID: id, Sig: c13bAggSig(ctx, 1<<uint(x%n), x%c13bNMsgs)}}
			hashes[c] = "blockhash-" + c
			continue
		case 16:
			f.PubKeyHash += "x"
			continue
		case 11:
			if x%2 == 0 {
				set(nil)
			} else {
				set([]gcrypto.SparseSignature{})
			}
			continue
		case 15:
			if len(restKeys) > 0 && len(f.MainSignatures) > 0 {
				o := f.Rest[restKeys[x%len(restKeys)]]
				if len(o) > 0 {
					f.MainSignatures[0].Sig, o[0].Sig = o[0].Sig, f.MainSignatures[0].Sig
				}
			}
			continue
		}
		ss := get()
		if len(ss) == 0 {
			continue
		}
		e := &ss[0]
		switch k {
		case 0:
			if len(e.KeyID) >= 2 {
				e.KeyID[0], e.KeyID[1] = 0, 0
			} else {
				e.KeyID = []byte{0, 0}
			}
		case 1:
			nk := n + 1 + x%3
			if x%5 == 0 {
				nk = 0xffff
			}
			e.KeyID = append(c13bKeyID(nk), e.KeyID[min(2, len(e.KeyID)):]...)
		case 2:
			e.KeyID = append(c13bKeyID(x%(n+1)), e.KeyID[min(2, len(e.KeyID)):]...)
		case 3:
			e.KeyID = append(e.KeyID, 0xff)
			if x%2 == 0 {
				e.KeyID = append(e.KeyID, 0xff, 0xff, 0xff)
			}
		case 4:
			if len(e.KeyID) > 2 {
				e.KeyID = e.KeyID[:len(e.KeyID)-1]
			}
		case 5:
			if len(e.KeyID) > 2 {
				e.KeyID[len(e.KeyID)-1] += byte(1 + x%3)
			} else {
				e.KeyID = append(e.KeyID, byte(1+x%5))
			}
		case 6:
			if len(e.KeyID) >= 2 {
				e.KeyID = append(append(bytes.Clone(e.KeyID[:2]), 0), e.KeyID[2:]...)
			}
		case 7:
			e.KeyID = e.KeyID[:min(len(e.KeyID), x%2)]
		case 8:
			e.Sig = c13bFlip(e.Sig, x)
		case 9:
			e.Sig = c13bGarbage(x)
			if x%3 == 0 {
				e.Sig = nil
			}
		case 10:
			e.Sig = bytes.Clone(c13bInfinitySig)
		case 12:
			set(append(ss, gcrypto.SparseSignature{KeyID: bytes.Clone(e.KeyID), Sig: bytes.Clone(e.Sig)}))
		case 17:
			e.KeyID = append(e.KeyID[:min(2, len(e.KeyID))], bytes.Repeat([]byte{0xff}, 1+x%40)...)
		}
	}
}

func c13bRunFin(t vk.TB, st *vk.Stats, c c13bFinCase) {
	if c.N < 1 {
		c.N = 1
	}
	if c.N > c13bMaxN {
		c.N = c13bMaxN
	}
	c.Rot = c13bAbs(c.Rot) % c13bPoolKeys
	if st.WantSample() {
		st.Sample(c)
	}
	w := c13bW()
	scheme := gblsminsig.SignatureProofScheme{}
	n := c.N
	keys := make([]int, n)
	for i := range keys {
		keys[i] = (c.Rot + i) % c13bPoolKeys
	}
	const hash = "c13-keyhash"
	ctx := c13bNewCtx(keys, 0, hash)
	gkeys := ctx.gkeys()

	sets := make([]uint32, c13bMaxBlocks)
	for i := 0; i < n; i++ {
		a := 0
		if i < len(c.Assign) {
			a = c13bAbs(c.Assign[i])
		}
		a %= c13bMaxBlocks + 1
		if a > 0 {
			sets[a-1] |= 1 << uint(i)
		}
	}
	if sets[0] == 0 {
		sets[0] = 1 // every caller finalizes a main block that has signatures
		for b := 1; b < c13bMaxBlocks; b++ {
			sets[b] &^= 1
		}
	}
	var all uint32
	hasDouble := false
	nBlocks := 0
	count := func() {
		all, hasDouble, nBlocks = 0, false, 0
		for _, m := range sets {
			if m == 0 {
				continue
			}
			nBlocks++
			if all&m != 0 {
				hasDouble = true
			}
			all |= m
		}
	}
	plain := append([]uint32(nil), sets...)
	for _, d := range c.Dbl {
		sets[c13bAbs(d.B)%c13bMaxBlocks] |= 1 << uint(c13bAbs(d.I)%n)
	}
	count()
	excluded := false
	if hasDouble && vk.Excluded(c13bFinding) {
		// Known finding (trigger: some signer is in two blocks): Finalize panics.
		// Excluded by construction: run the case without the double signers.
		st.Excluded(c13bFinding)
		excluded = true
		sets = plain
		count()
	}
	labels := []string{fmt.Sprintf("n=%02d", n), fmt.Sprintf("blocks=%d", nBlocks), fmt.Sprintf("via=%d", c13bAbs(c.Via)%3)}
	if hasDouble {
		labels = append(labels, "double-signer")
	}
	if excluded {
		labels = append(labels, "double-signer-excluded")
	}
	if len(c.Mut) > 0 {
		labels = append(labels, "corrupted")
	} else {
		labels = append(labels, "roundtrip-only")
	}
	if all == 1<<uint(n)-1 {
		labels = append(labels, "everyone-signed")
	}
	nontriv := nBlocks >= 2
	if nontriv {
		labels = append(labels, "nontrivial")
	}
	mutLabels := map[string]bool{}
	defer func() {
		for l := range mutLabels {
			labels = append(labels, l)
		}
		sort.Strings(labels)
		st.Case(nontriv, vk.FP(c), labels...)
	}()
	fail := func(finding, clause, format string, args ...any) {
		t.Helper()
		st.Fail(t, c, finding, clause, format, args...)
	}
	st.WAL(c)
	st.Guard(t, c, func() {
		build := func(b int) gcrypto.CommonMessageSignatureProof {
			p, err := scheme.New(bytes.Clone(w.msgs[b]), gkeys, hash)
			if err != nil {
				fail("", "new", "scheme.New: %v", err)
			}
			bctx := c13bNewCtx(keys, b, hash)
			switch c13bAbs(c.Via) % 3 {
			case 0:
				for i := 0; i < n; i++ {
					if sets[b]&(1<<uint(i)) != 0 {
						if err := p.AddSignature(bytes.Clone(w.sigs[keys[i]][b]), gkeys[i]); err != nil {
							fail("", "add-result", "AddSignature of a valid signature: %v", err)
						}
					}
				}
			default:
				sp := gcrypto.SparseSignatureProof{PubKeyHash: hash}
				if c13bAbs(c.Via)%3 == 1 {
					for i := n - 1; i >= 0; i-- {
						if sets[b]&(1<<uint(i)) != 0 {
							sp.Signatures = append(sp.Signatures, gcrypto.SparseSignature{KeyID: c13bKeyID(i), Sig: bytes.Clone(w.sigs[keys[i]][b])})
						}
					}
				} else {
					for _, id := range c13bCover(n, sets[b]) {
						lv, _ := c13bLeaves(n, id)
						sp.Signatures = append(sp.Signatures, gcrypto.SparseSignature{KeyID: c13bKeyID(id), Sig: c13bAggSig(bctx, lv, b)})
					}
				}
				if res := p.MergeSparse(sp); !res.AllValidSignatures || !res.IncreasedSignatures {
					fail("", "flag-AllValidSignatures", "MergeSparse of valid signatures for block %d: %+v", b, res)
				}
			}
			var bs bitset.BitSet
			p.SignatureBitSet(&bs)
			if got, _ := c13bMaskOf(&bs); got != sets[b] {
				fail("", "bitset-vs-model", "block %d proof has signers %#x, built from %#x", b, got, sets[b])
			}
			return p
		}
		main := build(0)
		var rest []gcrypto.CommonMessageSignatureProof
		for b := 1; b < c13bMaxBlocks; b++ {
			if sets[b] != 0 {
				rest = append(rest, build(b))
			}
		}
		if len(rest) > 1 {
			o := c13bAbs(c.Order) % len(rest)
			rest = append(append([]gcrypto.CommonMessageSignatureProof(nil), rest[o:]...), rest[:o]...)
			if c13bAbs(c.Order)%2 == 1 {
				rest[0], rest[len(rest)-1] = rest[len(rest)-1], rest[0]
			}
		}
		hashes := map[string]string{}
		for b := 0; b < c13bNMsgs; b++ {
			hashes[string(w.msgs[b])] = fmt.Sprintf("blockhash-%d", b)
		}

		var fin gcrypto.FinalizedCommonMessageSignatureProof
		func() {
			defer func() {
				if r := recover(); r != nil {
					if hasDouble {
						fail(c13bFinding, "finalize-double-signer-panic", "Finalize panicked with a signer present in two blocks (sets %#x): %v", sets, r)
					}
					panic(r)
				}
			}()
			fin = scheme.Finalize(main, rest)
		}()

		out, unique := scheme.ValidateFinalizedProof(c13bCloneFin(fin), hashes)
		if out == nil {
			fail("", "finalize-roundtrip", "ValidateFinalizedProof(Finalize(...)) returned a nil map (unique=%v) for sets %#x", unique, sets)
		}
		if unique != !hasDouble {
			fail("", "double-signer-report", "allSignaturesUnique=%v but double signer present=%v (sets %#x)", unique, hasDouble, sets)
		}
		if len(out) != nBlocks {
			fail("", "finalize-roundtrip", "validated map has %d blocks, built from %d (sets %#x)", len(out), nBlocks, sets)
		}
		for b := 0; b < c13bMaxBlocks; b++ {
			bs, ok := out[fmt.Sprintf("blockhash-%d", b)]
			if sets[b] == 0 {
				if ok {
					fail("", "finalize-roundtrip", "block %d had no signers but appears in the validated map", b)
				}
				continue
			}
			if !ok || bs == nil {
				fail("", "finalize-roundtrip", "block %d missing from the validated map (sets %#x)", b, sets)
			}
			got, inRange := c13bMaskOf(bs)
			if !inRange || got != sets[b] {
				fail("", "finalize-roundtrip", "block %d validated to signers %#x, built from %#x (all sets %#x)", b, got, sets[b], sets)
			}
		}
		// independent confirmation that the finalized signatures themselves verify
		c13bCheckFinArbitrary(t, st, c, ctx, fin, hashes)

		if len(c.Mut) == 0 {
			return
		}
		mf := c13bCloneFin(fin)
		c13bMutateFin(&mf, ctx, c.Mut, hashes, mutLabels)
		c13bCheckFinArbitrary(t, st, c, ctx, mf, hashes)
	})
}

func c13bGenFin(t *rapid.T) c13bFinCase {
	n := rapid.SampledFrom(c13bSizes).Draw(t, "n")
	c := c13bFinCase{N: n, Rot: rapid.IntRange(0, 3).Draw(t, "rot"), Via: rapid.IntRange(0, 2).Draw(t, "via"), Order: rapid.IntRange(0, 7).Draw(t, "order")}
	nb := rapid.IntRange(1, c13bMaxBlocks).Draw(t, "nblocks")
	absent := rapid.IntRange(0, 3).Draw(t, "absentweight")
	c.Assign = make([]int, n)
	for i := range c.Assign {
		a := rapid.IntRange(-absent, nb+2).Draw(t, "a")
		switch {
		case a <= 0:
			c.Assign[i] = 0
		case a > nb:
			c.Assign[i] = 1
		default:
			c.Assign[i] = a
		}
	}
	if rapid.IntRange(0, 9).Draw(t, "dbl") < 2 {
		c.Dbl = rapid.SliceOfN(rapid.Custom(func(t *rapid.T) c13bDbl {
			return c13bDbl{I: rapid.IntRange(0, n-1).Draw(t, "di"), B: rapid.IntRange(0, nb-1).Draw(t, "db")}
		}), 1, 2).Draw(t, "dbls")
	}
	if rapid.IntRange(0, 9).Draw(t, "mutate") < 6 {
		c.Mut = rapid.SliceOfN(rapid.Custom(func(t *rapid.T) c13bFinMut {
			return c13bFinMut{
				K: rapid.IntRange(0, len(c13bFinMutNames)-1).Draw(t, "k"),
				B: rapid.IntRange(0, 4).Draw(t, "b"),
				X: rapid.IntRange(0, 600).Draw(t, "x"),
			}
		}), 1, 3).Draw(t, "muts")
	}
	return c
}

const c13bFinRule = "n=1..17 BLS keys (every non power of two included); every signer assigned to absent/main/one of up to 4 rest blocks (double signers only when finding C13-F1 is not excluded); proofs built by AddSignature, MergeSparse of leaves or of maximal aggregates; rest slice order generated; ValidateFinalizedProof(Finalize(...)) must give back exactly the per-block sets with allSignaturesUnique=true; in 60% of the cases the finalized proof is then corrupted (k=0, k too big, other k, oversized/truncated/incremented/zero-padded combination index, short id, bad/infinity signature, dropped/duplicated entries, swapped signatures, other main content, unknown rest block) and every reported set must be backed by a signature verifying against the independently aggregated key; non-trivial = at least 2 blocks; distinct = distinct case data"

func TestVerifC13BLSFinalize(t *testing.T) {
	st := vk.NewStats("C13", "TestVerifC13BLSFinalize", c13bFinRule)
	defer st.Flush()
	var c c13bFinCase
	if ok, err := vk.LoadReplay("C13", "TestVerifC13BLSFinalize", &c); err != nil {
		t.Fatal(err)
	} else if ok {
		c13bRunFin(t, st, c)
		return
	} else if vk.Replaying() {
		t.Skip("replay file is for another test")
	}
	rapid.Check(t, func(rt *rapid.T) {
		c13bRunFin(rt, st, c13bGenFin(rt))
	})
}

// ---------------------------------------------------------------------------
// native fuzz targets

type c13bRd struct {
	b []byte
	i int
}

func (r *c13bRd) next() int {
	if r.i >= len(r.b) {
		return 0
	}
	v := r.b[r.i]
	r.i++
	return int(v)
}

func (r *c13bRd) take(n int) []byte {
	out := make([]byte, 0, n)
	for ; n > 0 && r.i < len(r.b); n-- {
		out = append(out, r.b[r.i])
		r.i++
	}
	return out
}

func (r *c13bRd) more() bool { return r.i < len(r.b) }

func (r *c13bRd) mask(n int) uint32 {
	return (uint32(r.next()) | uint32(r.next())<<8 | uint32(r.next())<<16) & (1<<uint(n) - 1)
}

// sig decodes a signature: 0 = valid aggregate for `natural` (the leaves the key
// id claims, when the harness can tell), 1 = that with a flipped bit,
// 2 = infinity, 3 = valid aggregate of an explicit mask, otherwise raw bytes.
func (r *c13bRd) sig(ctx *c13bCtx, msg int, natural uint32) []byte {
	switch sel := r.next(); {
	case sel == 0 && natural != 0:
		return c13bAggSig(ctx, natural, msg)
	case sel == 1 && natural != 0:
		return c13bFlip(c13bAggSig(ctx, natural, msg), r.next()+256*r.next())
	case sel == 2:
		return bytes.Clone(c13bInfinitySig)
	case sel == 3:
		if m := r.mask(len(ctx.keys)); m != 0 {
			return c13bAggSig(ctx, m, msg)
		}
		return nil
	default:
		return r.take(r.next() % 60)
	}
}

func c13bFuzzCtx(rd *c13bRd) *c13bCtx {
	n := 1 + rd.next()%c13bMaxN
	keys := make([]int, n)
	for i := range keys {
		keys[i] = i
	}
	return c13bNewCtx(keys, 0, "c13-keyhash")
}

func FuzzVerifC13BLSSparse(f *testing.F) {
	f.Add([]byte{4, 0, 0, 0, 0, 2, 0, 0, 0, 2, 0, 1, 0})
	f.Add([]byte{4, 0, 3, 0, 0, 2, 0, 8, 0, 2, 0, 13, 0, 2, 0, 5, 2})
	f.Add([]byte{6, 0, 1, 0, 0, 2, 0, 0, 9, 5, 1, 2, 3, 4, 5})
	f.Add([]byte{15, 1, 0xff, 0xff, 0, 2, 0, 30, 0})
	f.Add([]byte{2, 0, 0, 0, 0, 1, 0, 0, 3, 0, 0, 0, 0, 0, 0, 2, 0, 4, 3, 7, 0, 0})
	f.Fuzz(func(t *testing.T, data []byte) {
		rd := &c13bRd{b: data}
		ctx := c13bFuzzCtx(rd)
		n := len(ctx.keys)
		flags := rd.next()
		pre := rd.mask(n)
		r := &c13bRun{t: t, scheme: gblsminsig.SignatureProofScheme{}, labels: map[string]bool{}, opdesc: "fuzz"}
		s := &c13bSlot{p: r.newProof(ctx), ctx: ctx}
		r.slots = []*c13bSlot{s}
		w := c13bW()
		if flags&2 != 0 {
			// preload through aggregated nodes instead of leaves
			sp := gcrypto.SparseSignatureProof{PubKeyHash: ctx.hash}
			for _, id := range c13bCover(n, pre) {
				lv, _ := c13bLeaves(n, id)
				sp.Signatures = append(sp.Signatures, gcrypto.SparseSignature{KeyID: c13bKeyID(id), Sig: c13bAggSig(ctx, lv, 0)})
			}
			s.p.MergeSparse(sp)
			s.model = pre
		} else {
			for i := range ctx.keys {
				if pre&(1<<uint(i)) != 0 {
					if err := s.p.AddSignature(bytes.Clone(w.sigs[ctx.keys[i]][0]), w.pubs[ctx.keys[i]]); err != nil {
						t.Fatalf("VERIF-FAIL property=C13 clause=\"add-result\": valid signature rejected: %v", err)
					}
					s.model |= 1 << uint(i)
				}
			}
		}
		sp := gcrypto.SparseSignatureProof{PubKeyHash: ctx.hash}
		if flags&1 != 0 {
			sp.PubKeyHash = "other"
		}
		for k := 0; rd.more() && k < 12; k++ {
			var e gcrypto.SparseSignature
			e.KeyID = rd.take(rd.next() & 3)
			var natural uint32
			if len(e.KeyID) == 2 {
				natural, _ = c13bLeaves(n, int(binary.BigEndian.Uint16(e.KeyID)))
			}
			e.Sig = rd.sig(ctx, 0, natural)
			sp.Signatures = append(sp.Signatures, e)
		}
		r.opdesc = fmt.Sprintf("fuzz MergeSparse n=%d preload=%#x entries=%d", n, s.model, len(sp.Signatures))
		r.checkAll(0)
		r.mergeSparseChecked(0, s, sp, false)
	})
}

// c13bEncodeFin encodes a finalized proof produced by the real Finalize in the
// fuzz input format (seed corpus).
func c13bEncodeFin(n int, contents map[string]int, sets map[string]uint32, fin gcrypto.FinalizedCommonMessageSignatureProof) []byte {
	out := []byte{byte(n - 1)}
	ent := func(content string, ss []gcrypto.SparseSignature) {
		out = append(out, byte(contents[content]), byte(len(ss)))
		for _, s := range ss {
			out = append(out, byte(len(s.KeyID)))
			out = append(out, s.KeyID...)
			m := sets[content]
			out = append(out, 3, byte(m), byte(m>>8), byte(m>>16))
		}
	}
	ent(string(fin.MainMessage), fin.MainSignatures)
	out = append(out, byte(len(fin.Rest)))
	rk := make([]string, 0, len(fin.Rest))
	for c := range fin.Rest {
		rk = append(rk, c)
	}
	sort.Strings(rk)
	for _, c := range rk {
		ent(c, fin.Rest[c])
	}
	return out
}

func FuzzVerifC13BLSFinalized(f *testing.F) {
	w := c13bW()
	// seeds: real finalized proofs
	for _, cfg := range []struct {
		n    int
		sets []uint32
	}{
		{5, []uint32{0b00111, 0b01000}},
		{7, []uint32{0b1111111}},
		{6, []uint32{0b000011, 0b001100, 0b110000}},
		{9, []uint32{0b101010101, 0b010000010, 0b000101000}},
		{1, []uint32{1}},
		{4, []uint32{0b0110}},
	} {
		keys := make([]int, cfg.n)
		for i := range keys {
			keys[i] = i
		}
		ctx := c13bNewCtx(keys, 0, "c13-keyhash")
		var proofs []gcrypto.CommonMessageSignatureProof
		contents := map[string]int{}
		sets := map[string]uint32{}
		for b, m := range cfg.sets {
			p, _ := gblsminsig.SignatureProofScheme{}.New(w.msgs[b], ctx.gkeys(), ctx.hash)
			for i := 0; i < cfg.n; i++ {
				if m&(1<<uint(i)) != 0 {
					if err := p.AddSignature(w.sigs[i][b], w.pubs[i]); err != nil {
						f.Fatal(err)
					}
				}
			}
			proofs = append(proofs, p)
			contents[string(w.msgs[b])] = b
			sets[string(w.msgs[b])] = m
		}
		fin := gblsminsig.SignatureProofScheme{}.Finalize(proofs[0], proofs[1:])
		f.Add(c13bEncodeFin(cfg.n, contents, sets, fin))
	}
	f.Add([]byte{4, 0, 1, 2, 0, 0, 2, 0})
	f.Add([]byte{4, 0, 1, 3, 0, 2, 0xff, 3, 3, 0, 0, 0})
	f.Fuzz(func(t *testing.T, data []byte) {
		rd := &c13bRd{b: data}
		ctx := c13bFuzzCtx(rd)
		hashes := map[string]string{}
		content := func(sel int) (string, int) {
			sel %= c13bNMsgs + 2
			if sel < c13bNMsgs {
				return string(w.msgs[sel]), sel
			}
			return fmt.Sprintf("c13-unknown-content-%d", sel), 0
		}
		entries := func(mi int) []gcrypto.SparseSignature {
			var ss []gcrypto.SparseSignature
			for k := rd.next() % 4; k > 0; k-- {
				id := rd.take(rd.next() % 12)
				ss = append(ss, gcrypto.SparseSignature{KeyID: id, Sig: rd.sig(ctx, mi, 0)})
			}
			return ss
		}
		fin := gcrypto.FinalizedCommonMessageSignatureProof{Keys: ctx.gkeys(), PubKeyHash: ctx.hash}
		mc, mi := content(rd.next())
		fin.MainMessage = []byte(mc)
		hashes[mc] = "blockhash-" + mc
		fin.MainSignatures = entries(mi)
		for nb := rd.next() % 5; nb > 0; nb-- {
			c, ci := content(rd.next())
			if fin.Rest == nil {
				fin.Rest = map[string][]gcrypto.SparseSignature{}
			}
			hashes[c] = "blockhash-" + c
			fin.Rest[c] = entries(ci)
		}
		c13bCheckFinArbitrary(t, nil, nil, ctx, fin, hashes)
	})
}
