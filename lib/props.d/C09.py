PROP_ID = "C09"
PROP = {
    "level": "exploration",
    "assumptions": [
        "constructor part: only Opt values returned by the documented With* functions are passed (a nil Opt, typed-nil interface values and nil contexts are outside the domain)",
        "constructor part: stores are the repo's tmmemstore implementations; the driver answers InitChain immediately; the consensus strategy answers immediately",
        "constructor part: defects the constructor can only discover after option validation are demanded in the error text only when no other option is missing or rejected, and only the first of them: WithInitChainChannel (needed only when the stores hold no chain), then WithGenesis with an empty validator set (known only after the InitChain response brought none)",
        "constructor part: known finding C09-A23 (New accepts a missing WithCommittedHeaderStore) is excluded by construction: the requirement is not demanded while the finding is listed",
        "mapper part: 'the engine can return it' = the constant appears in a return statement of tm/tmengine/internal/tmmirror/mirror.go (measured at run time, united with the list found at the pinned commit)",
    ],
    "units": [
        {
            "bin": "c09ctor", "pkg": "tm/tmengine", "inject": [("c09ctor", "tm/tmengine")],
            "tests": [
                {"name": "TestVerifC09CtorNew", "quick": 3000, "thorough": 80000, "shards": {"thorough": 16}},
                {"name": "TestVerifC09CtorNewMirror", "quick": 3000, "thorough": 80000, "shards": {"thorough": 16}, "salt": 1},
            ],
        },
        {
            "bin": "c09mapper", "pkg": "tm/tmconsensus", "inject": [("c09mapper", "tm/tmconsensus")],
            "tests": [
                {"name": "TestVerifC09FeedbackMappers", "mode": "loop", "quick": 1536, "thorough": 1536},
            ],
        },
        {
            "bin": "mirrorsim", "pkg": "tm/tmengine/internal/tmmirror", "inject": [("mirrorsim", "tm/tmengine/internal/tmmirror")],
            "tests": [
                {"name": "TestVerifC09MirrorHostile", "quick": 1000, "thorough": 160000, "shards": {"thorough": 16}, "salt": 2},
                # thorough only: the hostile histories compiled with the data race detector
                {"name": "TestVerifC09MirrorHostileDetector", "thorough": 6000, "shards": {"thorough": 8}, "salt": 6, "race": True, "env": {"GORACE": "halt_on_error=1"}},
            ],
        },
    ],
}
CLAIM = {
    "engine": "rapid-direct + synctest",
    "technique": "property-based testing (rapid) of constructor option lists against an independent option model inside testing/synctest bubbles + exhaustive enumeration of result values through both feedback mappers",
    "text": "Constructor part: generated option lists for tmengine.New and tmengine.NewMirror (every documented With* option; value classes valid / nil / buffered / unbuffered / non-empty / real-or-nop watchdog / genesis without validators; omitted; duplicated; any order; fresh or already initialised stores; consumers of the metrics and lag channels reading or never reading) are interpreted against the real constructors on the test goroutine inside a synctest bubble. Oracle: no panic; an independent last-write-wins model of the options says which documented-required options are missing and which values the option docs reject, and the result must be (instance, nil) exactly when that set is empty, else (nil, err) with err naming every such option and no valid one; an accepted instance must answer HandleProposedHeader / HandlePrevoteProofs with a defined result before a fake-time deadline, survive a fake-time advance, and return from Wait after the context is cancelled (decided by a fake-time timer and synctest deadlock detection, never the wall clock). Mapper part: every uint8 value of both result types through both shipped mappers and all three methods; every declared constant that mirror.go returns must map to a defined gexchange.Feedback without panicking. Message part (mirrorsim, TestVerifC09MirrorHostile): generated hostile histories against one real Mirror - proposed headers / votes at relative heights -2..+3 and rounds -1..+3 with every content, certificate and signature corruption variant, replayed headers of every variant (incl. foreign public keys and forged next lists), state machine entrances and actions, fetch answers, stalled consumers, concurrent groups, restarts; every call has a fake-time deadline and a poll-counting context (livelock), every result must be a defined constant that the shipped feedback mappers map, the node keeps serving its views, and a block that holds >= 1/3 of the votes of the voting round without its header must have a fetch request the node still waits for; the thorough tier repeats these histories in a -race build. Exploration of a finite-but-large configuration space for the constructors; exhaustive for the mappers.",
    "design_ref": "DESIGN.md section 4 C09, Appendix A rows A12 and A23",
    "note": "Crash and wedge sites that are listed findings (C09-A7/A9/A11/A23/A25/A26/A27) are excluded by construction; the state-machine and engine halves of the property are exercised by the C08/C02 (smsim) and C03 (netsim) units, whose process deaths are reported under those ids.",
}
