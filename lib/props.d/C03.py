PROP_ID = "C03"
PROP = {
    "level": "exploration",
    "assumptions": [
        "crypto/ed25519 and math/big are the reference for certificate verification",
        "schedules that meet a listed C03-A* crash finding are excluded by construction (hold-back rules, counted in excluded_known)",
        "the Go scheduler's choice among simultaneously runnable goroutines inside one step is not controlled",
        "liveness is not asserted",
    ],
    "guard_s": {"quick": 900, "thorough": 3600},
    "units": [{
        "bin": "netsim", "pkg": "tm/tmengine", "inject": [("netsim", "tm/tmengine")],
        "tests": [
            {"name": "TestVerifC03Agreement", "quick": 300, "thorough": 16000, "shards": {"thorough": 16}, "shrinktime": "60s", "env": {"GOMAXPROCS": "2"}},
            # thorough only: the same schedules compiled with the data race detector
            {"name": "TestVerifC03AgreementDetector", "thorough": 1600, "shards": {"thorough": 8}, "salt": 4, "shrinktime": "60s", "race": True, "env": {"GOMAXPROCS": "2", "GORACE": "halt_on_error=1"}},
        ],
    }],
}
CLAIM = {
    "engine": "rapid-stateful+synctest",
    "technique": "stateful property-based testing (rapid) of generated network schedules and fault sequences against 2-5 real tmengine.Engine instances in a testing/synctest bubble, with an agreement/contiguity invariant over the finalization history and independent ed25519 + math/big certificate re-verification",
    "text": "Real engines (public tmengine.New options, memory stores, real ChattyStrategy and StandardRoundTimer on fake time, lock-respecting harness strategy, deterministic driver) exchange messages only through a harness-owned network; the generated op list is the schedule (deliver, duplicate, drop, partition, advance time, restart, Byzantine proposals/votes and the split macro signed by < 1/3 of the power). After every step all correct nodes' FinalizeBlockRequests and CommittedHeaderStores must agree per height, each node's requests must be gap-free, and every request must be backed by a > 2/3 precommit certificate in that node's own stores (clause c01-driver-cert).",
    "design_ref": "DESIGN.md section 3.3 and section 4 C03",
    "note": "Exploration, not proof. Schedules hitting the listed kernel/state-machine TODO panics are held back (counted); liveness is not asserted.",
}
