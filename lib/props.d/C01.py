PROP_ID = "C01"
PROP = {
    "level": "exploration",
    "assumptions": ["crypto/ed25519, math/big and the pluggable SimpleSignatureScheme/SimpleHashScheme are trusted", "prescribed validator set = genesis at the initial height, else the registered list behind the NextValidatorSet hashes of the header committed at h-1 (harness registry, independent of the node)"],
    "units": [{
        "bin": "mirrorsim", "pkg": "tm/tmengine/internal/tmmirror", "inject": [("mirrorsim", "tm/tmengine/internal/tmmirror")],
        "tests": [
            {"name": "TestVerifC01CommitCertificate", "quick": 1200, "thorough": 160000, "shards": {"thorough": 16}},
        ],
    }],
}
CLAIM = {
    "engine": "mirrorsim",
    "technique": "stateful property-based testing (rapid op lists in testing/synctest bubbles) with independent certificate re-verification (crypto/ed25519 + math/big) at every commit event",
    "text": "Generated adversarial histories (the harness owns all validator keys) are run against one real tmmirror.Mirror; whenever a header becomes the committing header, is written to the committed-header store, is accepted through replay or is handed to the state machine, the committed header's content must hash to the certified block hash and every precommit signature the node holds for that height/hash is re-verified per round under the validator set the chain prescribes and the distinct signers' power must exceed two thirds. The driver clause (FinalizeBlockRequest backed by a certificate) is checked in netsim (C03 unit, clause c01-driver-cert).",
    "design_ref": "DESIGN.md section 4 C01, section 3.1",
    "note": "Exploration only; known crash findings (C09-*) are excluded by construction; BLS scheme not exercised here.",
}
