PROP_ID = "C07"
PROP = {
    "level": "exploration",
    "assumptions": ["crypto/ed25519 and the pluggable SimpleSignatureScheme/SimpleHashScheme are trusted", "single mirror on memory stores; restarts are clean (crash points belong to C10)"],
    "units": [{
        "bin": "mirrorsim", "pkg": "tm/tmengine/internal/tmmirror", "inject": [("mirrorsim", "tm/tmengine/internal/tmmirror")],
        "tests": [
            {"name": "TestVerifC07ValidatorSets", "quick": 1200, "thorough": 160000, "shards": {"thorough": 16}},
        ],
    }],
}
CLAIM = {
    "engine": "mirrorsim",
    "technique": "stateful property-based testing (rapid op lists in testing/synctest bubbles) with an invariant oracle evaluated after every step",
    "text": "Generated adversarial histories (the harness owns all validator keys) are run against one real tmmirror.Mirror; after every step the validator sets in the voting and committing views and in every committed header are compared (keys, powers, hashes) with the set the chain prescribes according to the harness's own registry, and list contents are re-hashed with an independent BLAKE2b implementation.",
    "design_ref": "DESIGN.md section 4 C07, section 3.1",
    "note": "Exploration only; known crash findings (C09-*) are excluded by construction.",
}
