PROP_ID = "C07"
PROP = {
    "level": "exploration",
    "assumptions": ["crypto/ed25519 and the pluggable SimpleSignatureScheme/SimpleHashScheme are trusted", "single mirror on memory stores; restarts are clean (crash points belong to C10)", "state-machine unit: validator changes are a pure function of the height (the harness driver and the harness network agree by construction)", "engine unit (netsim): quiescent restarts of whole tmengine.Engine instances; the prescribed set per height is a function of the case (genesis document, InitChain override, rotation), never of what a node believes"],
    "units": [{
        "bin": "mirrorsim", "pkg": "tm/tmengine/internal/tmmirror", "inject": [("mirrorsim", "tm/tmengine/internal/tmmirror")],
        "tests": [
            {"name": "TestVerifC07ValidatorSets", "quick": 1200, "thorough": 160000, "shards": {"thorough": 16}},
        ],
    }, {
        # state-machine half: the sets the machine proposes / filters / participates with are what the harness driver returned (harness/smsim)
        "bin": "smsim", "pkg": "tm/tmengine/internal/tmstate", "inject": [("smsim", "tm/tmengine/internal/tmstate")],
        "tests": [
            {"name": "TestVerifC07SMValidatorSets", "quick": 4000, "thorough": 320000, "shards": {"quick": 4, "thorough": 16}, "env": {"GOMAXPROCS": "2"}},
        ],
    }, {
        # engine half: whole tmengine.Engine instances restarted inside network schedules (harness/netsim, shared with C03)
        "bin": "netsim", "pkg": "tm/tmengine", "inject": [("netsim", "tm/tmengine")],
        "tests": [
            {"name": "TestVerifC07EngineRestartSets", "quick": 150, "thorough": 8000, "shards": {"thorough": 16}, "shrinktime": "60s", "salt": 0, "env": {"GOMAXPROCS": "2"}},
        ],
    }],
}
CLAIM = {
    "engine": "mirrorsim",
    "technique": "stateful property-based testing (rapid op lists in testing/synctest bubbles) with an invariant oracle evaluated after every step",
    "text": "Generated adversarial histories (the harness owns all validator keys) are run against one real tmmirror.Mirror; after every step the validator sets in the voting and committing views and in every committed header are compared (keys, powers, hashes) with the set the chain prescribes according to the harness's own registry, and list contents are re-hashed with an independent BLAKE2b implementation. State-machine unit (smsim): one real StateMachine on chains whose driver changes validator keys and powers at every height, with quiescent restarts and a crash point inside a store write; at every EnterRound / ConsiderProposedBlocks / ChooseProposedBlock call and for every proposed header the machine builds, ValidatorSet and NextValidatorSet (keys, powers, hashes) equal what the harness driver returned when finalizing h-2 and h-1, Consider/Choose receive exactly the acceptable proposals of the latest view (none withheld, none with other sets), and the presence of the Actions channel equals membership of the machine key in the set of that height, also right after a restart. Engine unit (netsim): 2-5 real tmengine.Engine instances on a harness-owned network, with a genesis document that differs from the set the application returned from InitChain (other powers, subset, superset, no validators) and restarts while mirror or state machine are still at the initial height; every round view handed to the strategy and every available-power figure must be the prescribed set's, proposals built by a node must carry the prescribed ValidatorSet/NextValidatorSet, no proposal or vote of a member of the prescribed set may be answered SignerUnrecognized/BadPubKeyHash, the strategy must be offered every stored proposal of the round's proposer that carries the prescribed sets, and a node that decided its prevote must have it in its own round store.",
    "design_ref": "DESIGN.md section 4 C07, section 3.1",
    "note": "Exploration only; known crash findings (C09-*) are excluded by construction.",
}
