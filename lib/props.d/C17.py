PROP_ID = "C17"
PROP = {
    "level": "exploration",
    "assumptions": [
        "update sequences come from a sequential model of the mirror kernel's gossip-facing logic (one op = one kernel event or one receive by the strategy); view shifts are computed with the repository's tmconsensus.VoteSummary",
        "the proposed headers and prevotes of a NilVotedRound view are permitted but not required to be broadcast (the statement singles out its final precommits)",
        "a first update carrying a NilVotedRound is not generated (the engine hands over the first update before any network message can complete a round)",
        "the harness' own ed25519 signatures and the documented big-endian uint16 key id identify a signer",
    ],
    "units": [{
        "bin": "c17", "pkg": "tm/tmgossip",
        "inject": [("c17", "tm/tmgossip"), ("c17/model", "internal/zzverif/c17model")],
        "tests": [
            {"name": "TestVerifC17Gossip", "quick": 5000, "thorough": 320000, "shards": {"thorough": 16}},
        ],
    }, {
        # generator soundness: the model's update sequences equal those of a real Mirror
        "bin": "c17mirror", "pkg": "tm/tmengine/internal/tmmirror",
        "inject": [("c17/mirror", "tm/tmengine/internal/tmmirror"), ("c17/model", "internal/zzverif/c17model")],
        "tests": [
            {"name": "TestVerifC17ModelMatchesMirror", "quick": 1000, "thorough": 36000, "shards": {"thorough": 12}, "salt": 3},
        ],
    }],
}
CLAIM = {
    "engine": "rapid-direct",
    "technique": "stateful property-based testing (rapid) of the real ChattyStrategy in testing/synctest bubbles against a set-equality oracle over a kernel model's update sequences",
    "text": "Generated operation lists (proposed headers, prevote/precommit messages with several targets and arbitrary signer masks for the voting, next-round and committing views, and read points that decide how kernel events coalesce) are turned by a sequential model of the mirror kernel into NetworkViewUpdate sequences built from real ed25519-signed proofs; each update is handed to a real ChattyStrategy with a recording broadcaster, and at every quiescence point the set of proposed headers and (kind, height, round, block hash, key id, signature) offered so far must contain everything in the views handed over (incl. precommits of nil-voted rounds) and nothing that was in none of them. Exploration, not proof.",
    "design_ref": "DESIGN.md section 4 C17",
    "note": "Generator soundness (model = real kernel) is argued in notes/C17.md; shapes the engine cannot produce are excluded by construction.",
}
