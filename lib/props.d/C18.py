PROP_ID = "C18"
PROP = {
    "level": "exploration",
    "assumptions": ["math/big is the reference arithmetic", "ByzantineMajority/Minority(0) panics by contract and is outside the domain"],
    "units": [{
        "bin": "c18", "pkg": "tm/tmconsensus", "inject": [("c18", "tm/tmconsensus")],
        "tests": [
            {"name": "TestVerifC18Thresholds", "quick": 200000, "thorough": 16000000, "shards": {"thorough": 16}},
            {"name": "TestVerifC18Sweep", "mode": "loop", "quick": 200000, "thorough": 3000000},
        ],
    }],
}
CLAIM = {
    "engine": "rapid-direct",
    "technique": "property-based testing (rapid) against a math/big oracle + exhaustive sweep of low/high ranges",
    "text": "Generated uint64 totals (uniform, boundary-biased, all residues at all magnitudes) and an exhaustive sweep of [1,N] and [2^64-N,2^64-1]; every clause of the statement is recomputed in math/big. Exploration, not proof: the function is a pure 64-bit computation, so sampled + swept coverage is the appropriate level for this family.",
    "design_ref": "DESIGN.md section 4 C18",
    "note": "Trusts math/big; n=0 is outside the domain (documented panic).",
}
