PROP_ID = "C19"
PROP = {
    "level": "exploration",
    "assumptions": [
        "addTxFunc wraps every state-dependent refusal in TxInvalidError and returns a fresh state (documented contract of gtxbuf.New); fatal (unwrapped) errors during Rebase are outside the statement",
        "txDeleterFunc reports membership of the transaction id in the reject list (the shape New's doc comment describes)",
        "Initialize is the first call on every buffer; no call is made with a cancelled context",
        "concurrent histories: Call/Return are ticks of an atomic logical clock taken around each call; porcupine v1.3.0 decides linearizability",
    ],
    "units": [{
        "bin": "c19", "pkg": "gdriver/gtxbuf", "inject": [("c19", "gdriver/gtxbuf")],
        "tests": [
            {"name": "TestVerifC19Sequential", "quick": 150000, "thorough": 6400000, "shards": {"thorough": 16}},
            {"name": "TestVerifC19Concurrent", "quick": 10000, "thorough": 320000, "shards": {"thorough": 16},
             "race": True, "salt": 1},
        ],
    }],
}
CLAIM = {
    "engine": "rapid-direct",
    "technique": "stateful property-based testing (rapid) of the real gtxbuf.Buffer against a (base, pending) reference model over generated transition tables, plus porcupine linearizability checking of concurrent histories recorded on the real scheduler",
    "text": "State/transaction semantics are a generated finite transition table (state x tx type -> next state | invalid). Sequential: 1-40 generated AddTx/Buffered/Rebase calls, some made by a caller whose own context is cancelled while the buffer is inside the callback (applied lists are subsets of the pending list, optionally with transactions that are not pending, permuted, repeated); every return value and error kind is compared with the reference model after every call, every Buffered result is independently replayed on the current base, returned and passed slices are overwritten afterwards to expose aliasing. Concurrent: the same call mix from 2-4 goroutines; the recorded history must linearize against the same model (porcupine) and every snapshot must apply in order on a base that was current during the call. Exploration of generated histories and of the schedules the Go scheduler produced, not a proof.",
    "design_ref": "DESIGN.md section 4 C19",
    "note": "Schedules are those the Go runtime produces (plus generated Gosched points), not an enumeration; the thorough tier runs the concurrent test under -race. Unwrapped (fatal) addTxFunc errors during Rebase are outside the statement and not generated.",
}
