PROP_ID = "C06"
PROP = {
    "level": "exploration",
    "assumptions": [
        "math/big is the reference arithmetic; thirds are decided as 3x < total / 3x >= total / 3x > 2*total",
        "total power of a validator set is in [1, 2^63) and a proof's bit set has one bit per validator of the set (what every caller passes)",
        "VoteSummary values come from NewVoteSummary (non-nil maps), as in every caller",
        "the stand-in proof implements exactly the read side of gcrypto.CommonMessageSignatureProof; one case in sixteen uses real SimpleCommonMessageSignatureProof values with ed25519 signatures",
    ],
    "units": [
        {
            "bin": "c06direct", "pkg": "tm/tmconsensus",
            "inject": [("c06kit", "internal/zzverif/c06kit"), ("c06direct", "tm/tmconsensus")],
            "tests": [
                {"name": "TestVerifC06Scenarios", "mode": "loop", "quick": 1, "thorough": 1},
                {"name": "TestVerifC06Direct", "quick": 30000, "thorough": 4800000, "shards": {"thorough": 16}},
            ],
        },
        {
            "bin": "c06step", "pkg": "tm/tmengine/internal/tmstate/internal/tsi",
            "inject": [("c06kit", "internal/zzverif/c06kit"), ("c06step", "tm/tmengine/internal/tmstate/internal/tsi")],
            "tests": [
                {"name": "TestVerifC06Step", "quick": 10000, "thorough": 1600000, "shards": {"thorough": 16}, "salt": 1},
            ],
        },
        {
            # the mirror kernel's own tally (votedistribution.go, unexported: the harness file is an in-package test)
            "bin": "c06dist", "pkg": "tm/tmengine/internal/tmmirror/internal/tmi",
            "inject": [("c06kit", "internal/zzverif/c06kit"), ("c06dist", "tm/tmengine/internal/tmmirror/internal/tmi")],
            "tests": [
                {"name": "TestVerifC06Distribution", "quick": 10000, "thorough": 1600000, "shards": {"thorough": 16}, "salt": 3},
            ],
        },
        {
            "bin": "mirrorsim", "pkg": "tm/tmengine/internal/tmmirror", "inject": [("mirrorsim", "tm/tmengine/internal/tmmirror")],
            "tests": [
                {"name": "TestVerifC06MirrorMinority", "quick": 800, "thorough": 120000, "shards": {"thorough": 16}, "salt": 2},
            ],
        },
    ],
}
CLAIM = {
    "engine": "rapid-direct",
    "technique": "stateful property-based testing (rapid) of tmconsensus.VoteSummary against an independent math/big recomputation from the signer sets",
    "text": "Generated validator sets (n in 1..12; small, equal, dominant, near-threshold and huge powers) and families of signer sets per target (nil target, one validator in up to six targets, signers restricted to a maximal set below one third), evaluated through SetAvailablePower/SetPrevotePowers/SetPrecommitPowers/SetVotePowers/Reset/ResetForSameHeight/Clone with shuffled proof-map insertion orders and repeated evaluation. Every field of the summary is compared with the recomputation (available = sum, per target = distinct signers, total = union of signers, most voted = documented tie rule); for signer sets below one third the caller-side thresholds (minority, majority, fully voted) must stay unmet. The mirror kernel's own per-target tally (newVoteDistribution, used for header fetches and for the committing block at start-up) is compared with the same recomputation. Exploration, not proof.",
    "design_ref": "DESIGN.md section 4 C06 (direct half)",
    "note": "Map iteration order inside the code under test is chosen by the Go runtime; it is explored by insertion-order shuffling plus repetition, not enumerated.",
}
