PROP_ID = "C20"
PROP = {
    "level": "exploration",
    "assumptions": [
        "handlers used by the harness return promptly and record each invocation before returning; a relay caused by a verdict therefore happens after the record exists",
        "daisy chain: testing/synctest quiescence (all goroutines of the bubble durably blocked) is the end of propagation; no wall clock is used",
        "libp2p line: go-libp2p-pubsub RawTracer callbacks on B and C are trusted as observation of what entered / was accepted by a node's pubsub; A and C are gated to B only, so B is the only path",
        "libp2p line is real time: the handler-replacement window is provoked statistically (messages published while SetConsensusHandler runs); bounded waits that expire are counted as inconclusive, never as violations",
        "undecodable = the connection's own codec (tmjson) returns an error or no message for the payload; payloads on which the codec itself panics (property C14) are skipped in the table test",
    ],
    "guard_s": {"quick": 900, "thorough": 3600},
    "units": [
        {
            # what the two shipped feedback mappers answer decides what a node relays: exhaustive table against their doc comments
            "bin": "c20mapper", "pkg": "tm/tmconsensus", "inject": [("c20mapper", "tm/tmconsensus")],
            "tests": [
                {"name": "TestVerifC20MapperSemantics", "mode": "loop", "quick": 1536, "thorough": 1536},
            ],
        },
        {
            "bin": "c20daisy", "pkg": "tm/tmp2p/tmp2ptest",
            "inject": [("c20msg", "internal/zzverif/c20msg"), ("c20daisy", "tm/tmp2p/tmp2ptest")],
            "tests": [
                {"name": "TestVerifC20Daisy", "quick": 5000, "thorough": 160000, "shards": {"thorough": 16}},
            ],
        },
        {
            "bin": "c20lp", "pkg": "tm/tmp2p/tmlibp2p",
            "inject": [("c20msg", "internal/zzverif/c20msg"), ("c20table", "tm/tmp2p/tmlibp2p"), ("c20libp2p", "tm/tmp2p/tmlibp2p")],
            "tests": [
                {"name": "TestVerifC20Table", "mode": "loop", "quick": 20000, "thorough": 200000},
                {"name": "TestVerifC20Libp2pLine", "quick": 250, "thorough": 8000, "shards": {"thorough": 4}, "shrinktime": "10s"},
            ],
        },
    ],
}
CLAIM = {
    "engine": "rapid-stateful+synctest",
    "technique": "stateful property-based testing (rapid) of generated publish / verdict / handler-swap histories on a real in-memory daisy chain (synctest quiescence) and on a real libp2p line A-B-C on loopback, judged against the log of handler invocations; plus exhaustive table sweeps of the topic validator (256 feedback values x 3 kinds x {handler, nil}) and of the shipped feedback mappers (2 mappers x 3 methods x 256 result values) and generated undecodable payloads",
    "text": "Four checks. (0) Mappers: both shipped feedback mappers (the handler a node plugs into its connection) x 3 methods x every result value, against their doc comments: a result that reports an invalid or unverified message is never answered Accepted, a verified new message always is, an already known one is Accepted by AcceptAllValid and not by DropDuplicate, and prevote / precommit proofs are mapped alike. (1) Table: the pubsub validator the connection registers is called directly for every feedback byte x message kind x {recording handler, ignoreMessage, constructor(nil)} and for thousands of malformed payloads; it may return Accept only if the matching handler method was invoked once with exactly the decoded message and returned Accepted; values outside the Feedback range must map to Ignore. (2) Daisy chain: lines of 3-5 real DaisyChainConnections inside a synctest bubble; generated op lists (publish from any node, per-node verdict bytes, SetConsensusHandler nil/table/constant with messages in flight, Disconnect, quiescence points); a handler may see message m only if every node between it and the publisher returned Accepted for m earlier in the invocation log. (3) libp2p: real hosts A-B-C (A, C gated to B only), generated messages / verdicts / undecodable payloads / handler swaps while A floods; a message seen by C's pubsub or accepted by B's pubsub must have an Accepted record at B. Before B gets its first handler the set-up publishes messages while B has only joined the topic (mesh formed, observed through tracer events) and demands that none of them reaches C; after the generated cases it installs a reject-all handler at B, cancels the context of B's connection while B's host and pubsub keep running, and demands that nothing A publishes afterwards reaches C. Exploration, not proof: schedules inside one step and the real-time replacement window are sampled.",
    "design_ref": "DESIGN.md section 4 C20",
    "note": "Known finding C20-F1 (daisy chain passes messages through a node without handler) is excluded by construction on the daisy chain: relay nodes always have a handler there. The libp2p replacement window is reported as a violation until fixes/C20-libp2p-handler-swap-window.diff is applied. The startup gap between Subscribe and the first RegisterTopicValidator in NewConnection is not exercised.",
}
