PROP_ID = "C12"
PROP = {
    "level": "exploration",
    "assumptions": [
        "callers obey the state machine's discipline: one goroutine, the outstanding timer is cancelled (or has elapsed) before the next is requested, live context",
        "LinearTimeoutStrategy defaults (5s/500ms, commit wait 2s/500ms) are taken from the source as the specification of 'reasonable defaults'",
        "real-scheduler test: a 24h timer is assumed not to elapse on the wall clock during one case (seconds)",
        "real-scheduler test: a start call (one channel hand-off to the timer goroutine) that stays unserved over 45 consecutive one-second watchdog ticks is taken as never served (clause start-never-served; confirmed by replaying the case)",
    ],
    "units": [{
        "bin": "c12timer", "pkg": "tm/tmengine/internal/tmstate", "inject": [("c12timer", "tm/tmengine/internal/tmstate")],
        "tests": [
            {"name": "TestVerifC12TimerModel", "quick": 10000, "thorough": 240000, "shards": {"thorough": 8}},
            {"name": "TestVerifC12TimerRace", "quick": 300, "thorough": 8000, "shards": {"thorough": 8}},
            # thorough only: the same two tests compiled with the data race detector
            {"name": "TestVerifC12TimerModelDetector", "thorough": 24000, "shards": {"thorough": 4}, "race": True},
            {"name": "TestVerifC12TimerRaceDetector", "thorough": 800, "shards": {"thorough": 4}, "race": True},
        ],
    }, {
        # state-machine half (timer discipline): one real StateMachine per case, harness RoundTimer vs the reference model's step
        "bin": "smsim", "pkg": "tm/tmengine/internal/tmstate", "inject": [("smsim", "tm/tmengine/internal/tmstate")],
        "tests": [
            {"name": "TestVerifC12TimerDiscipline", "quick": 6000, "thorough": 640000, "shards": {"quick": 4, "thorough": 16}, "env": {"GOMAXPROCS": "2"}},
        ],
    }],
}
CLAIM = {
    "engine": "rapid-stateful",
    "technique": "stateful property-based testing (rapid) of StandardRoundTimer against a reference model of one timer, on a synctest fake clock and under generated real-scheduler stress (GOMAXPROCS=16)",
    "text": "Generated op lists {start kind/h/r with a generated TimeoutStrategy, cancel (also concurrent and repeated), cancel of older timers, fake-time advances around the deadline, churn = cancel immediately followed by start} respect the state machine's caller discipline. After every op the model decides for every timer whether its channel must be open or closed: cancelled => never closed, uncancelled => closed exactly from the deadline on, every start returns a fresh live channel, the process survives. The same interpreter repeats generated patterns thousands of times outside the bubble on 16 Ps with Gosched/spin noise to reach the interleavings of caller and timer goroutine. Exploration of schedules, not enumeration.",
    "design_ref": "DESIGN.md section 4 C12 (production timer)",
    "note": "The state-machine timer-discipline half of C12 is a separate unit. Cancel racing a real-clock elapse of the same instant has no oracle (either outcome is consistent with the model).",
}
