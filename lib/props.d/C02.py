PROP_ID = "C02"
PROP = {
    "level": "exploration",
    "assumptions": [
        "same harness and mirror port as C08; additionally Restart stops the machine and builds a new one on the same action/finalization/state-machine stores, the mirror keeps the votes it held (as its round store would)",
        "a restart lets the dying machine finish the handler it is in but never sign; restarts in a round that already holds a recorded vote are the known finding C02-RESIGN and excluded by construction",
    ],
    "units": [{
        "bin": "smsim", "pkg": "tm/tmengine/internal/tmstate", "inject": [("smsim", "tm/tmengine/internal/tmstate")],
        "tests": [
            {"name": "TestVerifC02NoDoubleSign", "quick": 6000, "thorough": 640000, "shards": {"quick": 4, "thorough": 16}, "env": {"GOMAXPROCS": "2"}},
        ],
    }],
}
CLAIM = {
    "engine": "rapid-stateful",
    "technique": "stateful property-based testing (rapid) of one real StateMachine with restarts on the same stores; invariants over the recorded signer / action-store / emission history",
    "text": "A recording Signer logs every Prevote/Precommit/SignProposedHeader call with height, round and sign content; the wrapped ActionStore logs every Save*Action and its result (and takes already emitted actions right before each save, so emission-before-save is visible in the event order); the harness mirror logs every emitted action. Over the whole history including restarts: per (height, round, kind) at most one distinct sign content; every emitted action is preceded by a successful save of the same signature; every emitted target equals the first answer the strategy gave for that round; proposals only when the strategy proposed. Event orders include strategy answers and proposals after a round change, duplicates into the 1-buffered channels, jump-aheads, finalizations and restarts after any op.",
    "design_ref": "DESIGN.md section 4 C02",
    "note": "Re-signing byte-identical content is counted (label identical-resign), not a violation. Crash points inside a handler are not enumerated (C10 owns that).",
}
