PROP_ID = "C10"
PROP = {
    "level": "fault_enumeration",
    "assumptions": ["a process stop is modelled as: the goroutine performing the chosen store write never returns from it, nothing later reaches the stores, the instance is discarded; memory stores play the disk", "the same absolute messages are delivered in the crash-free reference run and in the crash run", "mirror part only in this unit (state machine / engine restarts: smsim and netsim units)"],
    "units": [{
        "bin": "mirrorsim", "pkg": "tm/tmengine/internal/tmmirror", "inject": [("mirrorsim", "tm/tmengine/internal/tmmirror")],
        "tests": [
            {"name": "TestVerifC10CrashRestart", "quick": 600, "thorough": 16000, "shards": {"thorough": 16}},
        ],
    }],
}
CLAIM = {
    "engine": "mirrorsim",
    "technique": "stateful property-based testing with injected crash points (rapid histories x store-write index; thorough tier enumerates every write index of each history) against a crash-free reference run",
    "text": "For generated message histories the mirror is stopped after an individual store write (or after a handled message), restarted on the same stores, the interrupted messages are redelivered and the rest of the history follows. Oracle: restart succeeds; positions are not behind the durably recorded ones; the committed chain is unchanged; every persisted proposal and vote of the resumed rounds is present again and verifies (crypto/ed25519); at the end the committed chain and voting position equal those of the crash-free run of the same messages.",
    "design_ref": "DESIGN.md section 4 C10, section 3.1",
    "note": "Fault enumeration over store-write indices of generated histories (thorough: all of them per history); finalization stores and the state machine are covered by the smsim / netsim units where present.",
}
