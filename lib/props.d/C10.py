PROP_ID = "C10"
PROP = {
    "level": "fault_enumeration",
    "assumptions": ["a process stop is modelled as: the goroutine performing the chosen store write never returns from it, nothing later reaches the stores, the instance is discarded; memory stores play the disk", "the same absolute messages are delivered in the crash-free reference run and in the crash run", "mirror part only in this unit (state machine / engine restarts: smsim and netsim units)", "state-machine unit: vote saves are not used as crash points (a restart in a round with a recorded vote is the listed finding C02-RESIGN); the rejoin clause is evaluated only when the run without stop ends in sync with the harness mirror and both mirror histories are equal", "engine unit (netsim): restarts are quiescent stop + tmengine.New on the same memory stores (no store-write crash points at engine level)"],
    "units": [{
        "bin": "mirrorsim", "pkg": "tm/tmengine/internal/tmmirror", "inject": [("mirrorsim", "tm/tmengine/internal/tmmirror")],
        "tests": [
            {"name": "TestVerifC10CrashRestart", "quick": 600, "thorough": 16000, "shards": {"thorough": 16}},
        ],
    }, {
        # state-machine half: one real StateMachine per case (harness/smsim), crash point = one store write of the machine's own stores
        "bin": "smsim", "pkg": "tm/tmengine/internal/tmstate", "inject": [("smsim", "tm/tmengine/internal/tmstate")],
        "tests": [
            {"name": "TestVerifC10SMRestart", "quick": 4000, "thorough": 160000, "shards": {"quick": 4, "thorough": 16}, "env": {"GOMAXPROCS": "2"}},
        ],
    }, {
        # engine half: whole tmengine.Engine instances restarted inside network schedules (harness/netsim, shared with C03)
        "bin": "netsim", "pkg": "tm/tmengine", "inject": [("netsim", "tm/tmengine")],
        "tests": [
            {"name": "TestVerifC10EngineRestart", "quick": 150, "thorough": 8000, "shards": {"thorough": 16}, "shrinktime": "60s", "salt": 7, "env": {"GOMAXPROCS": "2"}},
        ],
    }],
}
CLAIM = {
    "engine": "mirrorsim",
    "technique": "stateful property-based testing with injected crash points (rapid histories x store-write index; thorough tier enumerates every write index of each history) against a crash-free reference run",
    "text": "For generated message histories (gossip messages and honest replayed headers) the mirror is stopped after an individual store write (or after a handled message), restarted on the same stores, the interrupted messages are redelivered and the rest of the history follows. Oracle: restart succeeds; positions are not behind the durably recorded ones; the committed chain is unchanged; every persisted proposal and vote of the resumed rounds is present again and verifies (crypto/ed25519); at the end the committed chain and voting position equal those of the crash-free run of the same messages. The resumed voting view must carry, as its previous-commit proof, an authentic > 2/3 certificate for the committed block below it. Quick adds, besides the drawn stop, one stop strictly between two store writes of one operation. State-machine unit (smsim): generated state-machine histories (as for C02, incl. quiescent restarts) are run once without a stop and then with the machine dying inside one of its own store writes (SaveProposedHeaderAction, SaveFinalization, SetStateMachineHeightRound; quick: a drawn write, thorough: every such write of the history), a new StateMachine is built on the same action/finalization/state-machine stores, its entrance is answered as the mirror would, and the rest of the history follows. Oracle: start-up succeeds; the first entrance is exactly the round the durable state implies ((h+1, 0) once SaveFinalization(h) persisted, whatever round decided h and whether or not the new position had been written), never below the stored position; every later entrance was recorded before it was requested; no finalize request for a height whose finalization is stored, no overwrite attempt, stored finalizations byte-identical afterwards; and when the mirror histories of both runs coincide the machine ends, after redelivery, at the position of the run without the stop. Engine unit (netsim): whole tmengine.Engine instances are stopped and rebuilt on their stores inside generated network schedules (biased to restarts within the initial height, also right after the first commit, on chains whose InitChain overrode the genesis document); oracle: start-up succeeds, mirror position / committed headers / stored finalizations are not behind or different from what was durable before the stop, finalize requests stay gap-free (a repeat only as first request of the new incarnation, same hash), the restarted node proposes headers with the prescribed validator sets, is offered every acceptable stored proposal, and its decided prevote reaches its round store (no loss of participation), plus the C03 agreement and certificate clauses.",
    "design_ref": "DESIGN.md section 4 C10, section 3.1",
    "note": "Fault enumeration over store-write indices of generated histories (thorough: all of them per history); finalization stores and the state machine are covered by the smsim / netsim units where present.",
}
