PROP_ID = "C11"
PROP = {
    "level": "exploration",
    "assumptions": ["one mirror incarnation per version sequence (version counters restart with the process; restarts belong to C10)", "consumer speed is the op sequence: the harness drains the unbuffered output channels only at quiescence points chosen by generated ops", "crypto/ed25519 and the pluggable simple schemes are trusted"],
    "units": [{
        "bin": "mirrorsim", "pkg": "tm/tmengine/internal/tmmirror", "inject": [("mirrorsim", "tm/tmengine/internal/tmmirror")],
        "tests": [
            {"name": "TestVerifC11ConsumerViews", "quick": 1200, "thorough": 160000, "shards": {"thorough": 16}},
            {"name": "TestVerifC11ConcurrentCallers", "quick": 1500, "thorough": 96000, "shards": {"thorough": 8}, "salt": 3},
            # thorough only: the colliding-callers unit compiled with the data race detector
            {"name": "TestVerifC11ConcurrentCallersDetector", "thorough": 6000, "shards": {"thorough": 8}, "salt": 5, "race": True, "env": {"GORACE": "halt_on_error=1"}},
        ],
    }],
}
CLAIM = {
    "engine": "mirrorsim",
    "technique": "stateful property-based testing (rapid op lists incl. consumer schedules, testing/synctest bubbles) with per-consumer history invariants (thorough: the colliding-callers unit also under the Go race detector)",
    "text": "Generated message histories with generated reader schedules (stalled, resumed, read n) for the state machine and gossip outputs of one real tmmirror.Mirror; per consumer and round the received versions must strictly increase, proposals and signer sets only grow, received values stay bit-identical after receipt, a drained consumer must hold the mirror's current view, and rounds left by nil commit, full vote or skip must be explained to both consumers. A second unit is dominated by concurrent Handle* callers that collide on one block hash (a light and a heavy caller, so that the heavy update conflicts and is retried). Further clauses: one (height, round, version) names one content in the mirror itself; a vote message for the voting round answered with Accepted stays in the voting view while the node is in that round; with no input pending the outputs become quiescent (a drain that receives 3000 successive views fails). The thorough tier repeats the colliding-callers unit in a -race build: a view, proof or header shared between the kernel and a caller or consumer without a private copy is reported by the detector whether or not the contents differ at an observation point.",
    "design_ref": "DESIGN.md section 4 C11, section 3.1",
    "note": "Exploration only; the relative order of goroutines inside one step is the Go scheduler's; known crash findings (C09-*) are excluded by construction.",
}
