PROP_ID = "C05"
PROP = {
    "level": "exploration",
    "assumptions": ["crypto/ed25519 and the pluggable SimpleSignatureScheme/SimpleHashScheme handed to the mirror are trusted", "single mirror, simple (non-aggregating) proof scheme"],
    "units": [{
        "bin": "mirrorsim", "pkg": "tm/tmengine/internal/tmmirror", "inject": [("mirrorsim", "tm/tmengine/internal/tmmirror")],
        "tests": [
            {"name": "TestVerifC05AuthenticVotes", "quick": 1200, "thorough": 160000, "shards": {"thorough": 16}},
        ],
    }],
}
CLAIM = {
    "engine": "mirrorsim",
    "technique": "stateful property-based testing (rapid op lists in testing/synctest bubbles) with independent ed25519 re-verification of every held signature",
    "text": "Generated message histories with per-signature corruption are run against one real tmmirror.Mirror; after every step every signature obtainable from views, stores, gossip and state-machine outputs - including the commit proofs inside the proposed headers a view holds - is re-verified with crypto/ed25519 under the prescribed validator set for exactly the target it is filed under, and all-invalid messages must leave a content digest of views and stores unchanged and not be reported accepted.",
    "design_ref": "DESIGN.md section 4 C05, section 3.1",
    "note": "Exploration only. Known crash findings (C09-*) are excluded by construction; goroutine order inside concurrent groups is the Go scheduler's.",
}
