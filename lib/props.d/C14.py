PROP_ID = "C14"
_FUZZ = ["FuzzVerifC14UnmarshalHeader", "FuzzVerifC14UnmarshalProposedHeader", "FuzzVerifC14UnmarshalCommittedHeader",
         "FuzzVerifC14UnmarshalPrevoteProof", "FuzzVerifC14UnmarshalPrecommitProof", "FuzzVerifC14UnmarshalConsensusMessage"]
PROP = {
    "level": "exploration",
    "assumptions": [
        "codec under test: tmjson.MarshalCodec with a registry holding ed25519 and BLS min-sig (bls-ms) keys",
        "well-formed value = every validator has a registered, decodable public key and ValidatorSet.PubKeys mirrors Validators; a ConsensusMessage has exactly one variant set (codec.go: otherwise undefined)",
        "nil and empty are identified for hashes/ids/signatures/key ids, Proofs maps, signature lists and validator lists (no consensus code distinguishes them); they are NOT identified for annotations (hash scheme and sign bytes test != nil)",
        "SimpleHashScheme / SimpleSignatureScheme of tmconsensustest are the reference hash and sign-bytes functions",
    ],
    "units": [{
        "bin": "c14", "pkg": "tm/tmcodec/tmjson", "inject": [("c14", "tm/tmcodec/tmjson")],
        "tests": [
            {"name": "TestVerifC14RoundTrip", "quick": 8000, "thorough": 960000, "shards": {"thorough": 16}},
            {"name": "TestVerifC14Totality", "quick": 6000, "thorough": 720000, "shards": {"thorough": 16}, "salt": 1},
        ] + [{"name": n, "mode": "fuzz", "thorough": 45, "workers": 8} for n in _FUZZ],
    }],
}
CLAIM = {
    "engine": "rapid-direct+go-fuzz",
    "technique": "property-based testing (rapid): encode/decode round trip with a field-by-field comparer plus independent hash / sign-bytes / signature recomputation; decoder totality by structured JSON-tree and byte mutation of valid encodings, and native coverage-guided fuzzing (go test -fuzz) of every Unmarshal entry point",
    "text": "Generated headers, proposed headers, committed headers, prevote/precommit sparse proofs and consensus messages (0..48 validators with ed25519/BLS/mixed keys, nil/empty/short/long byte strings, all annotation combinations, 0..7 proof entries with nil/empty/many signatures, extreme numbers) are encoded by the real codec and decoded again; every consensus-relevant field, the block hash, the proposal and vote sign bytes, genuine signatures and the message variant must be preserved. Encodings handed out earlier (the last 24 of the process) are kept with private copies and must not change when the codec is called again. Valid encodings mutated on the JSON tree (field removal, nulls, type swaps, duplicate keys, short/odd base64, hostile key encodings, huge counts) and on the bytes are offered to all six Unmarshal methods, which must return a value or an error; accepted values must re-encode and decode to themselves. The thorough tier adds six native fuzz targets with the same oracle. Exploration, not proof.",
    "design_ref": "DESIGN.md section 4 C14",
    "note": "Only the JSON codec (the only MarshalCodec in the repository) is exercised; key types beyond ed25519 and bls-ms are out of scope.",
}
