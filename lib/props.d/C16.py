PROP_ID = "C16"
PROP = {
    "level": "exploration",
    "assumptions": [
        "the reference model is written from the doc comments of tm/tmstore/*.go and the tmstoretest compliance suites; where those are silent the property statement's 'latest completed save' is used (committed header, mirror, state machine stores overwrite)",
        "domain: proposed-header actions have height >= 1 (the engine needs genesis.InitialHeight-1), vote signatures are non-empty, round-store proposed headers carry a proposer key, key / power lists are non-empty, one block hash = one header content",
        "behaviour the contract leaves open is tolerated, not flagged (see notes/C16.md): error priority when a repeated vote also changes the key, RoundActions.PubKey before any vote, a replayed header saved twice or shown without matching precommits, signature-less collections, height 0 in the mirror / state machine registers, aliasing of caller-owned slices",
        "concurrent mode explores only the schedules the Go scheduler happens to produce on this machine; the logical clock stamps call before and return after the real call, so recorded precedence implies real precedence",
        "porcupine's search is bounded by a 30 s budget per history; expiry is counted as 'Unknown' and never reported",
    ],
    "units": [{
        "bin": "c16", "pkg": "tm/tmstore/tmmemstore", "inject": [("c16", "tm/tmstore/tmmemstore")],
        "tests": [
            # measured CPU per case on this (loaded) sandbox: Seq ~2 ms, Conc ~4 ms, RegBurst ~3 ms, ConcRace ~25 ms (+5 s start-up)
            {"name": "TestVerifC16Seq", "quick": 12000, "thorough": 640000, "shards": {"thorough": 16}},
            {"name": "TestVerifC16Conc", "quick": 10000, "thorough": 480000, "shards": {"thorough": 16},
             "shrinktime": "3s", "salt": 1},
            {"name": "TestVerifC16RegBurst", "quick": 2500, "thorough": 160000, "shards": {"thorough": 8},
             "shrinktime": "3s", "salt": 3},
            {"name": "TestVerifC16ConcRace", "thorough": 48000, "shards": {"thorough": 8}, "race": True,
             "shrinktime": "3s", "salt": 2, "env": {"GORACE": "halt_on_error=1"}},
        ],
    }],
}
CLAIM = {
    "engine": "rapid-direct",
    "technique": "stateful property-based testing (rapid) of each memstore against a map-based reference model + porcupine linearizability checking of recorded concurrent histories (thorough: also under the Go race detector)",
    "text": "For each of the seven tmmemstore stores: generated op lists over small key spaces run against the real store and a reference model written from the interface doc comments; the caller reuses the powers slice it saved (the store copies powers); every return value (refusal errors, not-found errors, loaded values, hashes recomputed independently) is compared after every op, and values handed out earlier are re-encoded at the end to detect later mutation. Concurrently, 2-8 goroutines run generated op lists on one store; the call/return history stamped by a logical clock is checked for linearizability against the same model with porcupine, and the thorough tier repeats this under -race (half of those cases without the clock, so the detector is not blinded by its synchronisation). Exploration, not proof: only the schedules the Go scheduler produced are covered.",
    "design_ref": "DESIGN.md section 4 C16",
    "note": "Concurrent failures are not schedule-reproducible: the failure file carries the recorded history and replay re-checks that history deterministically; a process death / race report is replayed by re-running the threads.",
}
