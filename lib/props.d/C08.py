PROP_ID = "C08"
PROP = {
    "level": "exploration",
    "assumptions": [
        "the harness mirror is a port of the real kernel's committing/voting/next-round view logic, view manager Output/MarkSent and HeightCommitted signal; the machine is only shown what that logic can produce for some honest network history (no equivocation, the machine's key is never forged)",
        "harness events are issued one at a time while the kernel sits in its main select (except strategy answers), so the order in which the machine handles them is the op order and not a Go select lottery",
        "strategy never returns a fatal error; the driver echoes height/round/hash of the request; the application's validator changes are a pure function of the height",
        "schedules that reach a listed known finding (C08-A15..A18, C08-NODECIDE, C08-CHROUND, C08-JUMPROUND) are excluded by construction and counted",
    ],
    "units": [{
        "bin": "smsim", "pkg": "tm/tmengine/internal/tmstate", "inject": [("smsim", "tm/tmengine/internal/tmstate")],
        "tests": [
            {"name": "TestVerifC08RoundRules", "quick": 6000, "thorough": 640000, "shards": {"quick": 4, "thorough": 16}, "env": {"GOMAXPROCS": "2"}},
            # thorough only: the same unit compiled with the data race detector
            {"name": "TestVerifC08RoundRulesDetector", "thorough": 32000, "shards": {"thorough": 8}, "salt": 4, "race": True, "env": {"GOMAXPROCS": "2", "GORACE": "halt_on_error=1"}},
        ],
    }],
}
CLAIM = {
    "engine": "rapid-stateful",
    "technique": "stateful property-based testing (rapid) of one real StateMachine in a synctest bubble against a reference model of the round rules plus trace invariants",
    "text": "Generated op lists drive a real tmstate.StateMachine through round entrances (view or committed header), monotone view updates, jump-aheads, timer expiries, strategy answers (hash, nil, not-ready, delayed, after a round change), proposals, block-data arrivals, finalization responses and HeightCommitted signals in every order the channel protocol permits. A reference model (DESIGN Appendix B) is advanced on every harness-visible event and compared at every quiescence point; every clause of the statement is an invariant over the recorded trace (finalize only after a shown >2/3 precommit view or a catch-up header, next height only after SaveFinalization returned, four reasons for leaving a round, at most one prevote choice and one DecidePrecommit per round with a shown trigger, due DecidePrecommit requests, strictly increasing entrances, every call and vote refers to the current round, vote targets are strategy outputs). Exploration of event orders, not enumeration.",
    "design_ref": "DESIGN.md section 4 C08, Appendix B",
    "note": "Liveness is asserted only at quiescence for the listed triggers. Event orders in which two inputs are ready for the kernel's select at the same time are not explored.",
}
