PROP_ID = "C13"
PROP = {
    "level": "exploration",
    "assumptions": [
        "crypto/ed25519 and blst's own verify/aggregate entry points are the reference for signature validity",
    ],
    "units": [
        {
            "bin": "c13simple", "pkg": "gcrypto", "inject": [("c13simple", "gcrypto")],
            "tests": [
                {"name": "TestVerifC13SimpleOps", "quick": 4000, "thorough": 600000, "shards": {"thorough": 6}},
                {"name": "TestVerifC13SimpleFinalize", "quick": 4000, "thorough": 300000, "shards": {"thorough": 2}},
                {"name": "FuzzVerifC13SimpleSparse", "mode": "fuzz", "thorough": 60},
                {"name": "FuzzVerifC13SimpleFinalized", "mode": "fuzz", "thorough": 60},
            ],
        },
        {
            "bin": "c13bls", "pkg": "gcrypto/gblsminsig", "inject": [("c13bls", "gcrypto/gblsminsig")],
            "tests": [
                {"name": "TestVerifC13BLSOps", "quick": 600, "thorough": 30000, "shards": {"quick": 2, "thorough": 5}},
                {"name": "TestVerifC13BLSFinalize", "quick": 800, "thorough": 21000, "shards": {"quick": 2, "thorough": 3}},
                {"name": "FuzzVerifC13BLSSparse", "mode": "fuzz", "thorough": 60},
                {"name": "FuzzVerifC13BLSFinalized", "mode": "fuzz", "thorough": 60},
            ],
        },
    ],
}
CLAIM = {
    "engine": "rapid-direct",
    "technique": "stateful property-based testing (rapid) against a set-of-signers model with independent signature verification, plus native coverage-guided fuzzing of sparse/finalized decoders",
    "text": "Generated operation lists (AddSignature valid/corrupted/other key/other message/key outside the set, Merge incl. proofs over other keys, MergeSparse of harness-built or AsSparse-derived proofs with bit-flipped/garbage/infinity signatures, out-of-range, duplicate and 0/1/3-byte key ids, wrong key hash, BLS aggregates lacking a leaf or claiming a parent/sibling/padding node, Clone, Derive, AsSparse->new proof round trip) over a pool of proofs for key sets of 1..17 keys, interpreted against both shipped schemes with a set-of-signers model. After every step each proof's bit set must equal prior set + offered signers whose signature verifies independently (crypto/ed25519; for BLS each sparse entry against the blst-aggregated key of the tree leaves its id covers, layout recomputed in the harness), every AsSparse entry must verify, repeats must change nothing, AllValid/Increased (and WasStrictSuperset where the repo's compliance suite defines it) must match, untouched proofs (clones, merge sources) must not change. Finalize/ValidateFinalizedProof: every generated partition of signers over main/rest blocks (+ double signers) must validate back to exactly the per-block sets with allSignaturesUnique == no double signer; corrupted finalized proofs and native-fuzzed sparse/finalized inputs must not panic and must not report signers without a verifying signature. Exploration, not proof.",
    "design_ref": "DESIGN.md section 4 C13",
    "note": "Signature validity is decided by crypto/ed25519 and blst verify/aggregate entry points, not by gordian code. ValidateFinalizedProof is always given a hashesBySignContent map covering every content of the proof (as its only caller builds it). BLS Finalize with a double signer is known finding C13-F1 (excluded by construction). Signer-produced alternate ed25519 signatures for the same key/message are not generated.",
}
