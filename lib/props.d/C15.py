PROP_ID = "C15"
PROP = {
    "level": "exploration",
    "assumptions": [
        "BLAKE2b-256 is collision resistant: two generated headers with the same hash mean the serialization fed to the hasher does not distinguish them",
        "a header commits to its validator lists through ValidatorSet.{PubKeyHash,VotePowerHash}; the Validators/PubKeys slices themselves are not hash input by design (consistency of list and hashes is C07)",
        "nil and empty annotations are distinct inputs (AnnotationCombinations / TestHashSchemeCompliance / TestSimpleSignatureScheme demand it); nil vs empty of the other byte fields is not a consensus difference and is never the only difference of a pair",
        "two proof entries holding the same signatures in another slice order are neither required to hash equal nor different",
        "proposal sign bytes: the signed fields are the ones SimpleSignatureScheme writes (height, round, prev block hash, prev app state hash, data id, proposal annotations); that the header Hash itself is not signed is measured and reported in notes/C15.md, not failed",
    ],
    "units": [{
        "bin": "c15", "pkg": "tm/tmconsensus/tmconsensustest", "inject": [("c15", "tm/tmconsensus/tmconsensustest")],
        "tests": [
            {"name": "TestVerifC15HashSensitivity", "quick": 80000, "thorough": 6400000, "shards": {"thorough": 16}},
            {"name": "TestVerifC15HashDeterminism", "quick": 20000, "thorough": 1600000, "shards": {"thorough": 8}, "salt": 1},
            {"name": "TestVerifC15SignBytes", "quick": 80000, "thorough": 8000000, "shards": {"thorough": 16}, "salt": 2},
            {"name": "TestVerifC15ValidatorHashes", "quick": 20000, "thorough": 1600000, "shards": {"thorough": 8}, "salt": 3},
        ],
    }],
}
CLAIM = {
    "engine": "rapid-direct",
    "technique": "property-based testing (rapid): metamorphic pairs built from generated (field selector, new value) mutations of a plain-data header / sign-target model, with model equality as the oracle and a cross-case collision table",
    "text": "Headers and sign targets are generated as data from near-miss value pools; the second element of each pair is produced by 1-3 generated field mutations (every scalar, validator hash, annotation state and every component of the previous-commit proof, plus byte shifts across adjacent fields and field swaps), so the oracle knows from the models alone whether the pair is equal or differs. Equal models (other map insertion order, other stored Hash) must hash equal over repeated calls; differing models must hash differently; distinct (kind, height, round, hash / signed proposal field) targets must have distinct sign bytes across and within kinds; all hashes and sign bytes of a run are additionally checked against a table of earlier cases. For proposal sign bytes the harness also learns the format from the output: where the raw bytes of two signed byte fields occur in the sign bytes, the text between them is taken as the separator and the target \"first + separator + second, second absent\" must get different sign bytes (field injection). Exploration of a pure function: sampled pairs, no claim of absence of collisions.",
    "design_ref": "DESIGN.md section 4 C15",
    "note": "Relies on BLAKE2b collision resistance to read an equal hash as 'field not bound'. Proposal sign bytes do not cover the header Hash in SimpleSignatureScheme; measured, not failed (notes/C15.md).",
}
