PROP_ID = "C04"
PROP = {
    "level": "exploration",
    "assumptions": ["crypto/ed25519 and the pluggable SimpleSignatureScheme/SimpleHashScheme are trusted", "single mirror on memory stores; restarts are clean (crash points belong to C10)"],
    "units": [{
        "bin": "mirrorsim", "pkg": "tm/tmengine/internal/tmmirror", "inject": [("mirrorsim", "tm/tmengine/internal/tmmirror")],
        "tests": [
            {"name": "TestVerifC04CommittedChain", "quick": 1200, "thorough": 160000, "shards": {"thorough": 16}},
        ],
    }],
}
CLAIM = {
    "engine": "mirrorsim",
    "technique": "stateful property-based testing (rapid op lists in testing/synctest bubbles) with an invariant oracle evaluated after every step",
    "text": "Generated adversarial histories (the harness owns all validator keys) (incl. hostile answers of the proposed-header fetcher and a lost wrong-predecessor proposal that is fetched before its quorum completes) are run against one real tmmirror.Mirror; after every step the committed-header store, the mirror store and both views are checked for immutability of committed hashes, contiguity, monotone positions, voting = committing + 1 and predecessor hash links.",
    "design_ref": "DESIGN.md section 4 C04, section 3.1",
    "note": "Exploration only; known crash findings (C09-*) are excluded by construction.",
}
