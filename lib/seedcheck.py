#!/usr/bin/env python3
"""Validate a seeded defect and run checks against it.
usage: seedcheck.py <seed dir> <demo pkg dir> <demo run regex> <ID>[,<ID>...] [--thorough]
 - makes a scratch worktree of /repo HEAD, confirms: patch applies, demo FAILS with it, demo PASSES without it
 - runs ./check run <ID> (quick; thorough when --thorough) against the patched worktree for each ID
 - writes /verif/seeded/<name>/{patch.diff,demo files,meta.json}
"""
import json, os, shutil, subprocess, sys, time, glob
seed, pkg, runre, ids = sys.argv[1], sys.argv[2], sys.argv[3], sys.argv[4].split(",")
thorough = "--thorough" in sys.argv
name = os.path.basename(seed.rstrip("/"))
wt = "/tmp/sc-" + name
env = dict(os.environ, GOFLAGS="-mod=mod", GOPROXY="off", GORDIAN_TEST_TIME_FACTOR="20")
def sh(cmd, cwd=None, e=None, timeout=3600):
    r = subprocess.run(cmd, shell=True, cwd=cwd, env=e or env, stdout=subprocess.PIPE, stderr=subprocess.STDOUT, text=True, errors="replace", timeout=timeout)
    return r.returncode, r.stdout
sh("git -C /repo worktree remove --force %s" % wt)
rc, out = sh("git -C /repo worktree add --detach %s HEAD" % wt)
assert rc == 0, out
res = {"name": name, "checks": {}}
try:
    demos = [f for f in glob.glob(os.path.join(seed, "*")) if os.path.basename(f) not in ("patch.diff", "demo.txt", "meta.json")]
    for f in demos:
        shutil.copy(f, os.path.join(wt, pkg))
    rc0, out0 = sh("go test -count=1 -run '%s' ./%s/" % (runre, pkg), cwd=wt)
    res["demo_passes_without"] = rc0 == 0
    rc, out = sh("git apply %s" % os.path.join(seed, "patch.diff"), cwd=wt)
    res["patch_applies"] = rc == 0
    if rc != 0:
        print("PATCH DOES NOT APPLY", out)
    rc1, out1 = sh("go test -count=1 -run '%s' ./%s/" % (runre, pkg), cwd=wt)
    res["demo_fails_with_change"] = rc1 != 0
    res["demo_failure_excerpt"] = "\n".join(l for l in out1.splitlines() if "logger.go" not in l)[-1500:]
    rcb, outb = sh("go build ./...", cwd=wt)
    res["builds"] = rcb == 0
    # existing tests of the touched packages (demo removed)
    for f in demos:
        os.remove(os.path.join(wt, pkg, os.path.basename(f)))
    touched = sorted(set(os.path.dirname(l[6:]) for l in open(os.path.join(seed, "patch.diff")) if l.startswith("+++ b/")))
    pk = " ".join("./%s/..." % t for t in touched)
    rct, outt = sh("go test -count=1 %s" % pk, cwd=wt)
    res["existing_tests"] = {"cmd": "go test -count=1 " + pk, "pass": rct == 0,
                             "failed": [l for l in outt.splitlines() if l.startswith("--- FAIL") or l.startswith("FAIL")][:8]}
    e2 = dict(os.environ, VERIF_REPO=wt)
    for pid in ids:
        t0 = time.time()
        rcq, outq = sh("./check run %s --tier quick" % pid, cwd="/verif", e=e2)
        lines = [l for l in outq.splitlines() if l.startswith(("VIOLATION", "OK ", "INCONCLUSIVE", "  clause"))]
        res["checks"][pid] = {"quick_exit": rcq, "quick_s": round(time.time() - t0, 1), "quick": lines[:6]}
        if rcq == 0 and thorough:
            t0 = time.time()
            rct2, outt2 = sh("./check run %s --tier thorough" % pid, cwd="/verif", e=e2, timeout=7200)
            lines = [l for l in outt2.splitlines() if l.startswith(("VIOLATION", "OK ", "INCONCLUSIVE", "  clause"))]
            res["checks"][pid].update({"thorough_exit": rct2, "thorough_s": round(time.time() - t0, 1), "thorough": lines[:6]})
        # replays produced against a mutated tree are not kept
        for l in outq.splitlines():
            if l.startswith("VIOLATION") and "replay=" in l:
                p = l.split("replay=")[1].strip()
                if os.path.exists(p) and "/replays/known/" not in p:
                    os.remove(p)
finally:
    sh("git -C /repo worktree remove --force %s" % wt)
dst = os.path.join("/verif/seeded", name)
os.makedirs(dst, exist_ok=True)
for f in glob.glob(os.path.join(seed, "*")):
    if os.path.basename(f) != "meta.json":
        shutil.copy(f, dst)
meta = {}
try:
    meta = json.load(open(os.path.join(seed, "meta.json")))
except Exception:
    pass
meta["confirmed_by_coordinator"] = {k: res.get(k) for k in ("patch_applies", "builds", "demo_passes_without", "demo_fails_with_change", "existing_tests")}
meta["demo_failure_excerpt"] = res.get("demo_failure_excerpt", "")
# a later run against improved checks keeps the results of the checks it did not repeat
prev = {}
try:
    prev = json.load(open(os.path.join(dst, "meta.json"))).get("checks_run", {})
except Exception:
    pass
prev.update(res["checks"])
meta["checks_run"] = prev
meta["repo_head"] = subprocess.run("git -C /repo rev-parse --short HEAD", shell=True, capture_output=True, text=True).stdout.strip()
json.dump(meta, open(os.path.join(dst, "meta.json"), "w"), indent=1)
print(json.dumps({k: v for k, v in res.items() if k != "demo_failure_excerpt"}, indent=1))
