#!/usr/bin/env python3
"""Add or replace an entry of /verif/known_findings.json under a file lock.
usage: addfinding.py '<json object with property,id,kind,site,trigger,text[,replay,commit]>'"""
import fcntl, json, os, sys
p = os.path.join(os.path.dirname(os.path.abspath(__file__)), "..", "known_findings.json")
e = json.loads(sys.argv[1])
for k in ("property", "id", "kind", "site", "trigger", "text"):
    assert k in e, "missing " + k
assert e["kind"] in ("finding", "fixed")
with open(p, "r+") as fh:
    fcntl.flock(fh, fcntl.LOCK_EX)
    doc = json.load(fh)
    if e["kind"] == "fixed":
        e["record"] = "fixed: property=%s %s %s" % (e["property"], e.get("commit", "?"), e["text"])
    else:
        e["record"] = "KNOWN-FINDING: property=%s %s" % (e["property"], e["text"])
    doc["findings"] = [x for x in doc["findings"] if x["id"] != e["id"]] + [e]
    doc["findings"].sort(key=lambda x: (x["property"], x["id"]))
    fh.seek(0); fh.truncate()
    json.dump(doc, fh, indent=1)
print("ok", e["id"])
