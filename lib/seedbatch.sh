#!/bin/bash
# usage: lib/seedbatch.sh "<seeddir> <ids>" ...   — validates each seed with lib/seedcheck.py (pkg dir and -run regex taken from demo.txt), 4 at a time
one() {
  d=$1; ids=$2
  line=$(grep -E "go test .*-run" $d/demo.txt | head -1)
  re=$(echo "$line" | sed -E "s/.*-run[ =]'?([^' ]+)'?.*/\1/")
  pkg=$(echo "$line" | grep -oE "\./[A-Za-z0-9_/]+/?" | tail -1 | sed -E 's#^\./##; s#/$##')
  n=$(basename $d)
  python3 lib/seedcheck.py $d "$pkg" "$re" "$ids" > /tmp/seedbatch-$n.log 2>&1
  echo "$n pkg=$pkg re=$re ids=$ids :: $(python3 - <<P
import json
m=json.load(open('/verif/seeded/$n/meta.json'))
c=m['confirmed_by_coordinator']
print('applies',c['patch_applies'],'builds',c['builds'],'demo-',c['demo_passes_without'],'demo+',c['demo_fails_with_change'],'tests',c['existing_tests']['pass'],c['existing_tests']['failed'][:3], {k:(v['quick_exit'],v['quick_s'],[l for l in v['quick'] if 'clause' in l][:2]) for k,v in m['checks_run'].items()})
P
)"
}
export -f one
printf '%s\n' "$@" | xargs -P 4 -I{} bash -c 'one {}'
