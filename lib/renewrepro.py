#!/usr/bin/env python3
"""Replace a stale regression reproducer: revert the entry's fix in a scratch worktree, let the property's quick check
find a failing case there, store it as the entry's reproducer if it fails there and passes on /repo.
usage: lib/renewrepro.py <entry id>"""
import json, os, subprocess, sys, re, shutil
eid = sys.argv[1]
kf = json.load(open("/verif/known_findings.json"))["findings"]
f = [x for x in kf if x["id"] == eid][0]
wt = "/tmp/rn-" + eid
def sh(cmd, cwd=None, env=None):
    r = subprocess.run(cmd, shell=True, cwd=cwd, env=env, stdout=subprocess.PIPE, stderr=subprocess.STDOUT, text=True, errors="replace")
    return r.returncode, r.stdout
sh("git -C /repo worktree remove --force " + wt)
sh("git -C /repo worktree add --detach %s HEAD" % wt)
try:
    rc, out = sh("git revert --no-commit " + f["commit"], cwd=wt)
    if rc != 0:
        sys.exit("does not revert cleanly")
    e = dict(os.environ, VERIF_REPO=wt)
    rc, out = sh("./check run %s --tier quick" % f["property"], cwd="/verif", env=e)
    cands = re.findall(r"VIOLATION property=\S+ replay=(\S+)", out)
    cands = [c for c in cands if "/known/" not in c and os.path.exists(c)]
    print("candidates:", cands)
    done = False
    for c in cands:
        new = json.load(open(c))
        old = json.load(open("/verif/" + f["replay"]))
        if new.get("test") != old.get("test") or done:
            os.remove(c); continue
        tmp = "/tmp/rn-%s.json" % eid
        rec = dict(old); rec["case"] = new["case"]
        json.dump(rec, open(tmp, "w"), indent=1)
        rc1, o1 = sh("./check replay %s %s" % (f["property"], tmp), cwd="/verif", env=e)
        rc2, o2 = sh("./check replay %s %s" % (f["property"], tmp), cwd="/verif")
        print(c, "fails without fix:", "VIOLATION" in o1, "passes on /repo:", "replay passes" in o2, "clause:", new.get("clause"))
        if "VIOLATION" in o1 and "replay passes" in o2:
            shutil.copy(tmp, "/verif/" + f["replay"]); done = True
        os.remove(c)
    print("renewed" if done else "NOT renewed")
finally:
    sh("git revert --abort", cwd=wt)
    sh("git -C /repo worktree remove --force " + wt)
