#!/usr/bin/env python3
"""Run the repository's own suite (guard off) and list baseline stable_pass tests that did not pass."""
import json, subprocess, sys, os
b = json.load(open('/root/.vp/BASELINE.json'))
stable = set(b['stable_pass'])
env = dict(os.environ, GOFLAGS='-mod=mod', GOPROXY='off')
if len(sys.argv) > 1:
    env['GORDIAN_TEST_TIME_FACTOR'] = sys.argv[1]
p = subprocess.run('go test -json -vet=off -count=1 -timeout 25m ./...', shell=True, cwd='/repo', env=env, stdout=subprocess.PIPE, stderr=subprocess.STDOUT, text=True)
res = {}
for l in p.stdout.splitlines():
    try:
        e = json.loads(l)
    except Exception:
        continue
    if e.get('Test') and e.get('Action') in ('pass', 'fail', 'skip'):
        res[e['Package'] + '::' + e['Test']] = e['Action']
bad = sorted(t for t in stable if res.get(t) != 'pass')
print("stable_pass tests:", len(stable), "passed now:", sum(1 for t in stable if res.get(t) == 'pass'))
for t in bad:
    print("NOT PASS:", res.get(t), t)
