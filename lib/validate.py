#!/usr/bin/env python3-vt
import json, jsonschema, glob, sys
m = json.load(open('/verif/MANIFEST.json'))
jsonschema.validate(m, json.load(open('/root/.vp/MANIFEST.schema.json')))
es = json.load(open('/root/.vp/EVIDENCE.schema.json'))
bad = 0
for c in m["checks"]:
    f = c["evidence_file"]
    try:
        jsonschema.validate(json.load(open(f)), es)
        print("ok", f)
    except Exception as e:
        bad += 1
        print("BAD", f, str(e).splitlines()[0])
print("manifest valid;", bad, "bad evidence files")
sys.exit(1 if bad else 0)
