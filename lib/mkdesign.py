#!/usr/bin/env python3
"""Refresh the generated seed table inside DESIGN.md §9.6."""
import re, subprocess
t = subprocess.run(["python3", "/verif/lib/seedtable.py"], capture_output=True, text=True).stdout
p = "/verif/DESIGN.md"
s = open(p).read()
s = re.sub(r"<!-- SEEDTABLE:BEGIN -->.*?<!-- SEEDTABLE:END -->", "<!-- SEEDTABLE:BEGIN -->\n" + t + "<!-- SEEDTABLE:END -->", s, flags=re.S)
import json
kf = json.load(open("/verif/known_findings.json"))["findings"]
bycommit = {}
for f in kf:
    if f.get("kind") == "fixed" and f.get("commit"):
        bycommit.setdefault(f["commit"][:7], []).append(f["id"])
log = subprocess.run("git -C /repo log --reverse --format='%h %s' 6a5c986..HEAD", shell=True, capture_output=True, text=True).stdout.splitlines()
lines = []
for i, l in enumerate(log, 1):
    h, subj = l.split(" ", 1)
    ids = ", ".join(sorted(bycommit.get(h[:7], [])))
    lines.append("%d. `%s` %s%s" % (i, h, subj[len("fix: "):] if subj.startswith("fix: ") else subj, (" — regression entries: " + ids) if ids else ""))
s = re.sub(r"<!-- FIXLIST:BEGIN -->.*?<!-- FIXLIST:END -->", "<!-- FIXLIST:BEGIN -->\n" + "\n".join(lines) + "\n<!-- FIXLIST:END -->", s, flags=re.S)
fl = []
for f in sorted(kf, key=lambda f: (f["property"], f["id"])):
    if f.get("kind") == "finding":
        fl.append("* **%s** (%s) — %s *Trigger:* %s" % (f["id"], f["property"], f["text"].rstrip(". ") + ".", f["trigger"].rstrip(". ") + "."))
s = re.sub(r"<!-- FINDINGS:BEGIN -->.*?<!-- FINDINGS:END -->", "<!-- FINDINGS:BEGIN -->\n" + "\n".join(fl) + "\n<!-- FINDINGS:END -->", s, flags=re.S)
open(p, "w").write(s)
print("DESIGN.md seed table refreshed")
