#!/usr/bin/env python3
"""Refresh the generated seed table inside DESIGN.md §9.6."""
import re, subprocess
t = subprocess.run(["python3", "/verif/lib/seedtable.py"], capture_output=True, text=True).stdout
p = "/verif/DESIGN.md"
s = open(p).read()
s = re.sub(r"<!-- SEEDTABLE:BEGIN -->.*?<!-- SEEDTABLE:END -->", "<!-- SEEDTABLE:BEGIN -->\n" + t + "<!-- SEEDTABLE:END -->", s, flags=re.S)
open(p, "w").write(s)
print("DESIGN.md seed table refreshed")
