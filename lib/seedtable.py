#!/usr/bin/env python3
"""Markdown table of the seeded changes and which checks caught them (from /verif/seeded/*/meta.json)."""
import glob, json, os
rows = []
for d in sorted(glob.glob("/verif/seeded/*/meta.json")):
    m = json.load(open(d))
    name = os.path.basename(os.path.dirname(d))
    ok = m.get("confirmed_by_coordinator", {})
    conf = "yes" if ok.get("patch_applies") and ok.get("demo_passes_without") and ok.get("demo_fails_with_change") and (ok.get("existing_tests") or {}).get("pass") else "partly"
    caught, missed = [], []
    for pid, r in sorted((m.get("checks_run") or {}).items()):
        if r.get("quick_exit") == 1:
            caught.append("%s quick (%ss)" % (pid, int(r.get("quick_s", 0))))
        elif r.get("thorough_exit") == 1:
            caught.append("%s thorough (%ss)" % (pid, int(r.get("thorough_s", 0))))
        else:
            missed.append(pid)
    title = (m.get("title") or m.get("what_it_breaks") or "").replace("|", "/").replace("\n", " ")[:110]
    rows.append("| %s | %s | %s | %s | %s |" % (name, title, conf, ", ".join(caught) or "—", ", ".join(missed) or "—"))
print("| seed | change | confirmed | caught by | not caught by |\n|---|---|---|---|---|")
print("\n".join(rows))
