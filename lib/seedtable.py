#!/usr/bin/env python3
"""Markdown table of the seeded changes and which checks caught them (from /verif/seeded/*/meta.json)."""
import glob, json, os
rows = []
# tests of the repository that also fail intermittently on the unchanged tree when the machine is loaded
FLAKY = {"TestEngine_plumbing_ReplayedHeaders", "TestEngine_mirrorSkipsAhead", "TestMirror_HandleProposedHeader",
         "TestMirror_pastInitialHeight", "TestGblsminsig", "TestDaisyChainInmem", "TestEngine_wiring_validatorChanges",
         "TestLibp2pNetwork_Compliance"}
for d in sorted(glob.glob("/verif/seeded/*/meta.json")):
    m = json.load(open(d))
    name = os.path.basename(os.path.dirname(d))
    ok = m.get("confirmed_by_coordinator", {})
    et = ok.get("existing_tests") or {}
    failed = [x.split()[2] for x in et.get("failed", []) if x.startswith("--- FAIL:")]
    only_flaky = bool(failed) and all(f in FLAKY for f in failed)
    conf = "partly"
    if ok.get("patch_applies") and ok.get("demo_passes_without") and ok.get("demo_fails_with_change"):
        conf = "yes" if et.get("pass") else ("yes*" if only_flaky else "partly")
    if m.get("retired"):
        conf = "retired"
    caught, missed = [], []
    for pid, r in sorted((m.get("checks_run") or {}).items()):
        if r.get("quick_exit") == 1:
            caught.append("%s quick (%ss)" % (pid, int(r.get("quick_s", 0))))
        elif r.get("thorough_exit") == 1:
            caught.append("%s thorough (%ss)" % (pid, int(r.get("thorough_s", 0))))
        else:
            missed.append(pid)
    title = (m.get("title") or m.get("what_it_breaks") or "").replace("|", "/").replace("\n", " ")[:110]
    rows.append("| %s | %s | %s | %s | %s |" % (name, title, conf, ", ".join(caught) or "—", ", ".join(missed) or "—"))
print("| seed | change | confirmed | caught by | not caught by |\n|---|---|---|---|---|")
print("\n".join(rows))
print("\n`yes*`: confirmed, but while the package tests ran on the loaded machine only tests that are also flaky on the unchanged tree failed (" + ", ".join(sorted(FLAKY)) + "). `retired`: see text.")
