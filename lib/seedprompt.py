#!/usr/bin/env python3
"""Writes the task file for an independent seeding sub-agent (which sees only the property text and its own
scratch worktree, nothing from /verif) and creates that worktree.
usage: seedprompt.py <round-tag e.g. seed4> <suffix e.g. v> <ID> '<hint sentence>'"""
import glob, json, os, subprocess, sys
tag, suf, pid, hint = sys.argv[1:5]
p = {json.loads(l)["id"]: json.loads(l) for l in open("/verif/properties.jsonl")}[pid]
wt = "/tmp/%s-%s" % (tag, pid)
if not os.path.exists(wt):
    subprocess.run(["git", "-C", "/repo", "worktree", "add", "--detach", wt, "HEAD"], stdout=subprocess.DEVNULL, stderr=subprocess.DEVNULL, check=True)
done = [json.load(open(m)).get("title", "")[:150] for m in sorted(glob.glob("/verif/seeded/%s-*/meta.json" % pid))]
proptxt = "Property %s: %s\n\nStatement: %s\n\nHolds for: %s\n\nCode it is anchored in: %s\n" % (
    pid, p["title"], p["statement"], p["quantifier"]["text"], ", ".join(p["anchors"]["files"]))
open("/tmp/%s-%s.prop.txt" % (tag, pid), "w").write(proptxt)
T = """You are a careful Go engineer doing mutation seeding for a robustness study. You work ONLY inside the git worktree {wt} (a checkout of gordian-engine/gordian, a Tendermint-style BFT consensus engine in Go). Do not read or write anything under /verif or /repo, and do not look at other /tmp/seed* directories; everything you need is in your worktree.

The property under study (read it carefully; the text is also in /tmp/{tag}-{pid}.prop.txt):

{proptxt}

This is a LATER ROUND for this property: earlier rounds already produced these changes, so avoid them and look for different mechanisms: (already done) {done}. Look instead at, for example: {hint}.

YOUR TASK: produce TWO independent, realistic source changes ("seeded defects") to the non-test Go code of the worktree, each of which BREAKS the property above while
  (a) the whole module still compiles (`go build ./...`), and
  (b) the existing unit tests of the packages you touched (and of tm/tmengine/... if you touch anything under tm/) still pass, and
  (c) the defect needs something SPECIFIC to manifest — a particular interleaving, a crash or fault at a particular point, a multi-step sequence of operations, an unusual input, or two cooperating sites that each look fine alone — NOT something ordinary use would expose at once. Think of the kind of bug a real refactoring or "optimisation" could introduce: a weakened comparison, a skipped verification on one rarely used path, a wrong field of two similar ones, a dropped clone, an off-by-one on a boundary, a cache that is not invalidated, state taken from the wrong round/height, a check moved after the side effect, etc. The two changes should touch different mechanisms.
For each change also write a DEMONSTRATION: a Go test (preferably a `_test.go` file placed in the relevant package directory; internal packages are fine) or small program that FAILS with your change applied and PASSES on the unmodified worktree. The demonstration must be deterministic (no reliance on wall-clock timing beyond the repo's own test helpers) and reasonably small. Study the existing tests and fixtures of the package (e.g. tm/tmengine/internal/tmmirror/tmmirrortest, tm/tmconsensus/tmconsensustest, tm/tmengine/internal/tmstate/tmstatetest) to build it.

Environment: offline sandbox. Use exactly: `export GOFLAGS=-mod=mod GOPROXY=off GORDIAN_TEST_TIME_FACTOR=20` before go commands (do NOT set GOSUMDB). The machine is heavily loaded; some existing tests are timing-flaky (e.g. TestEngine_mirrorSkipsAhead, TestEngine_plumbing_ReplayedHeaders, TestMirror_HandleProposedHeader/...backfills.../when_the_voting_view_already_has_a_proposed_header_matching) — if one of those fails, re-run it a few times on the unmodified tree to see whether it is a flake before blaming your change; run only the packages you need (`go test -count=1 ./tm/tmengine/internal/tmmirror/...` etc.).

Deliverables, inside the worktree: for each change i in {{1,2}} a directory `SEED/{pid}-{suf}<i>/` containing
  - `patch.diff`   — `git diff` of ONLY the source change (not the demonstration), applicable with `git apply` to a clean checkout of the worktree's HEAD;
  - the demonstration file(s) (all for ONE package directory), plus `demo.txt` saying where to copy them (package directory) and the exact command to run them;
  - `meta.json` — {{"property": "{pid}", "title": "...", "what_it_breaks": "...", "needs_to_manifest": "...", "files_touched": [...], "existing_tests_run": "<commands>", "demo_fails_with_change": true, "demo_passes_without": true}}.
Verify both directions yourself (demo passes on clean tree, fails with patch; existing tests pass with patch) before finishing, and leave the worktree's tracked files CLEAN at the end (`git checkout -- .`; the SEED directory and demo files there are untracked and fine). Do not commit. Never use `git stash` (it is shared between worktrees): to remove your change temporarily use `git diff > /tmp/<id>-change.diff; git checkout -- .` and `git apply` it back. In your final message list the two changes in two or three sentences each."""
open("/tmp/%s-%s.prompt.txt" % (tag, pid), "w").write(T.format(wt=wt, tag=tag, pid=pid, proptxt=proptxt, done="; ".join(done), hint=hint, suf=suf))
print("/tmp/%s-%s.prompt.txt" % (tag, pid))
