#!/bin/bash
# usage: lib/sweep.sh <tier> [ids...]   — runs the checks one after the other, prints one line per check
tier=$1; shift
ids=${@:-C01 C02 C03 C04 C05 C06 C07 C08 C09 C10 C11 C12 C13 C14 C15 C16 C17 C18 C19 C20}
for id in $ids; do
  t0=$(date +%s)
  out=$(./check run $id --tier $tier 2>&1); rc=$?
  echo "$id rc=$rc $(( $(date +%s) - t0 ))s $(echo "$out" | grep -E '^(OK|VIOLATION|INCONCLUSIVE)' | head -3 | tr '\n' ' ')"
  echo "$out" | grep -E "^  (clause|detail)" | head -4
done
