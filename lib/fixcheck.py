#!/usr/bin/env python3
"""Self-check of the regression tier: for every `fixed` entry of known_findings.json, revert its fix commit in a
scratch worktree of /repo and demand that the entry's reproducer FAILS there (a reproducer that passes without
its fix has gone stale). Entries whose commit does not revert cleanly on HEAD are reported as such.
usage: lib/fixcheck.py [id ...]      (parallel: 6)"""
import json, os, subprocess, sys
from concurrent.futures import ThreadPoolExecutor
kf = json.load(open("/verif/known_findings.json"))["findings"]
want = set(sys.argv[1:])
ents = [f for f in kf if f.get("kind") == "fixed" and f.get("commit") and f.get("replay") and (not want or f["id"] in want)]
# behaviours guarded in two layers by two fixes: reverting one commit alone shows nothing, so these
# entries are also tried with the sibling fix reverted as well
ALSO = {"C04-F1": ["bdb2201"], "C04-F2": ["bdb2201"], "C04-F3": ["9b93b4a"]}
def sh(cmd, cwd=None, env=None, timeout=1500):
    r = subprocess.run(cmd, shell=True, cwd=cwd, env=env, stdout=subprocess.PIPE, stderr=subprocess.STDOUT, text=True, errors="replace", timeout=timeout)
    return r.returncode, r.stdout
def one(f):
    wt = "/tmp/fc-" + f["id"].replace("/", "_")
    sh("git -C /repo worktree remove --force %s" % wt)
    rc, out = sh("git -C /repo worktree add --detach %s HEAD" % wt)
    if rc != 0:
        return f["id"], "worktree failed"
    try:
        rc, out = sh("git revert --no-commit %s" % f["commit"], cwd=wt)
        if rc != 0:
            return f["id"], "commit %s does not revert cleanly" % f["commit"]
        rc, out = sh("./check replay %s %s" % (f["property"], f["replay"]), cwd="/verif", env=dict(os.environ, VERIF_REPO=wt))
        if "VIOLATION" in out:
            return f["id"], "ok (reproducer fails without the fix)"
        if rc == 2 or "INCONCLUSIVE" in out:
            return f["id"], "inconclusive: " + out[-200:].replace("\n", " | ")
        for extra in ALSO.get(f["id"], []):
            rc, out = sh("git revert --no-commit %s" % extra, cwd=wt)
            if rc != 0:
                break
            rc, out = sh("./check replay %s %s" % (f["property"], f["replay"]), cwd="/verif", env=dict(os.environ, VERIF_REPO=wt))
            if "VIOLATION" in out:
                return f["id"], "ok with %s reverted too (two-layer guard: reproducer passes with %s reverted alone)" % (extra, f["commit"])
        return f["id"], "STALE: reproducer passes with %s reverted" % f["commit"]
    finally:
        sh("git revert --abort", cwd=wt)
        sh("git -C /repo worktree remove --force %s" % wt)
with ThreadPoolExecutor(6) as ex:
    for i, res in ex.map(one, ents):
        print(i, "::", res, flush=True)
