HOOK_COMMITS = []

# properties whose checks are integrated (built, run on the repaired tree, fixes applied, findings recorded)
READY = ["C01", "C02", "C03", "C04", "C05", "C06", "C07", "C08", "C09", "C10", "C11", "C12", "C13", "C14", "C15", "C16", "C17", "C18", "C19", "C20"]

ENGINES = [
    {"name": "check", "path": "/verif/check", "serves_properties": [], "kind_free_text": "python driver: overlay+modfile build of harness test binaries against /repo's working tree, sharding, process-death attribution + ddmin, known-finding confirmation tier, evidence"},
    {"name": "rapid-direct", "path": "/verif/harness", "serves_properties": ["C06", "C09", "C12", "C13", "C14", "C15", "C16", "C17", "C18", "C19", "C20"], "kind_free_text": "pgregory.net/rapid property tests (plus native go fuzz targets in thorough tiers) injected next to the package under test"},
    {"name": "mirrorsim", "path": "/verif/harness/mirrorsim", "serves_properties": ["C01", "C04", "C05", "C06", "C07", "C08", "C09", "C10", "C11"], "kind_free_text": "stateful PBT: generated op lists interpreted against one real tmmirror.Mirror inside testing/synctest bubbles, harness owns all keys, stores, channels and consumer schedules"},
    {"name": "smsim", "path": "/verif/harness/smsim", "serves_properties": ["C02", "C08", "C12"], "kind_free_text": "stateful PBT: one real tmstate.StateMachine, harness plays mirror, strategy, driver, timer, signer, stores; reference model of the round rules"},
    {"name": "netsim", "path": "/verif/harness/netsim", "serves_properties": ["C03"], "kind_free_text": "stateful PBT: N real tmengine.Engine instances on a harness-owned network inside one synctest bubble; the op list is the schedule"},
]

_PENDING = "check under construction in this session (see DESIGN.md section 8); not a statement that the technique cannot apply"
NOT_APPLICABLE = {("C%02d" % i): _PENDING for i in range(1, 21)}
