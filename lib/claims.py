HOOK_COMMITS = []

ENGINES = [
    {"name": "check", "path": "/verif/check", "serves_properties": [], "kind_free_text": "python driver: overlay+modfile build of harness test binaries against /repo's working tree, sharding, ddmin, evidence"},
    {"name": "rapid-direct", "path": "/verif/harness", "serves_properties": ["C18"], "kind_free_text": "pgregory.net/rapid property tests injected next to the package under test"},
]

_PENDING = "check not built yet in this session (planned, see DESIGN.md section 8); not a statement that the technique cannot apply"
NOT_APPLICABLE = {("C%02d" % i): _PENDING for i in range(1, 21)}

CLAIMS = {
    "C18": {
        "engine": "rapid-direct",
        "technique": "property-based testing (rapid) against a math/big oracle + exhaustive sweep of low/high ranges",
        "text": "Generated uint64 totals (uniform, boundary-biased, all residues at all magnitudes) and an exhaustive sweep of [1,N] and [2^64-N,2^64-1]; every clause of the statement is recomputed in math/big. Exploration, not proof: the function is a pure 64-bit computation, so sampled + swept coverage is the appropriate level for this family.",
        "design_ref": "DESIGN.md §4 C18",
        "note": "Trusts math/big; n=0 is outside the domain (documented panic).",
    },
}
