HOOK_COMMITS = []

ENGINES = [
    {"name": "check", "path": "/verif/check", "serves_properties": [], "kind_free_text": "python driver: overlay+modfile build of harness test binaries against /repo's working tree, sharding, ddmin, evidence"},
    {"name": "rapid-direct", "path": "/verif/harness", "serves_properties": ["C18"], "kind_free_text": "pgregory.net/rapid property tests injected next to the package under test"},
]

_PENDING = "check not built yet in this session (planned, see DESIGN.md section 8); not a statement that the technique cannot apply"
NOT_APPLICABLE = {("C%02d" % i): _PENDING for i in range(1, 21)}

