#!/usr/bin/env python3
"""Regenerates /verif/MANIFEST.json from lib/props.py + lib/claims.py."""
import json, os, sys
here = os.path.dirname(os.path.abspath(__file__))
sys.path.insert(0, here)
from props import PROPS, CLAIMS
from claims import NOT_APPLICABLE, ENGINES, HOOK_COMMITS, READY

checks = []
for pid in sorted(PROPS):
    if pid not in READY:
        continue
    c = CLAIMS[pid]
    checks.append({
        "property_id": pid,
        "quick_cmd": "./check run %s --tier quick" % pid,
        "thorough_cmd": "./check run %s --tier thorough" % pid,
        "evidence_file": "/verif/evidence/%s.json" % pid,
        "replay_cmd_template": "./check replay %s {path}" % pid,
        "engine": c["engine"],
        "level_claimed": {"category": PROPS[pid]["level"], "text": c["text"], "design_ref": c["design_ref"]},
        "level_note": c["note"],
        "technique": c["technique"],
    })
m = {
    "version": 1,
    "setup_cmd": "./check setup",
    "hooks": {
        "guard": "verif",
        "enable": "go test -c -tags verif -overlay <generated> -modfile <generated> (done by ./check; harness files are ADDED by build overlay, nothing in /repo is replaced)",
        "baseline_off_cmd": "cd /repo && GOFLAGS=-mod=mod GOPROXY=off go test -json -vet=off -count=1 -timeout 25m ./...",
        "source_commits": HOOK_COMMITS,
        "add_only": True,
    },
    "engines": ENGINES,
    "checks": checks,
    "not_applicable": [{"property_id": p, "reason": r} for p, r in sorted(NOT_APPLICABLE.items()) if p not in READY],
    "notes": "All checks are property-based tests / fuzzers (pgregory.net/rapid, native go fuzz) with explicit oracles; see DESIGN.md.",
}
json.dump(m, open(os.path.join(here, "..", "MANIFEST.json"), "w"), indent=1)
print("wrote MANIFEST.json with", len(checks), "checks")
