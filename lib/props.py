"""Per-property check configuration for /verif/check, assembled from lib/props.d/*.py.

Each fragment defines PROP_ID, PROP (driver config) and CLAIM (manifest text).

PROP:  level        evidence level (exploration | fault_enumeration | ...)
       assumptions  list of strings copied into the evidence file
       guard_s      optional {tier: wall-clock guard in seconds} (expiry = exit 2, never a violation)
       units: [ {
         bin     name of the test binary
         pkg     package directory (relative to /repo) that is compiled as the test package
         inject  [(harness dir under /verif/harness, package dir under /repo)] files ADDED by build overlay
         tests   [{name, mode: rapid|loop, quick: n, thorough: n, shards: {tier: k}, race: bool,
                   args: [...extra binary flags], env: {...}, salt: int, shrinktime: "20s"}]
       } ]
CLAIM: engine, technique, text, design_ref, note
"""
import glob, os, runpy

PROPS, CLAIMS = {}, {}
for _f in sorted(glob.glob(os.path.join(os.path.dirname(os.path.abspath(__file__)), "props.d", "*.py"))):
    _ns = runpy.run_path(_f)
    PROPS[_ns["PROP_ID"]] = _ns["PROP"]
    CLAIMS[_ns["PROP_ID"]] = _ns["CLAIM"]
