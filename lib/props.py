"""Per-property check configuration for /verif/check.

unit:  bin     name of the test binary
       pkg     package directory (relative to /repo) the harness is injected into
       inject  [(harness dir under /verif/harness, package dir)] files added by overlay
       tests   [{name, mode: rapid|loop, quick: n, thorough: n, shards: {tier: k}, race, args, env}]
"""

PROPS = {}

PROPS["C18"] = {
    "level": "exploration",
    "assumptions": ["math/big is the reference arithmetic", "ByzantineMajority/Minority(0) panics by contract and is outside the domain"],
    "units": [{
        "bin": "c18", "pkg": "tm/tmconsensus", "inject": [("c18", "tm/tmconsensus")],
        "tests": [
            {"name": "TestVerifC18Thresholds", "quick": 200000, "thorough": 16000000, "shards": {"thorough": 16}},
            {"name": "TestVerifC18Sweep", "mode": "loop", "quick": 200000, "thorough": 3000000, "shards": {"thorough": 1}},
        ],
    }],
}
